"""Reference models (monitors) evaluated while a run proceeds.

All of them are deliberately trivial and independent of the code they
judge: double-entry book-keeping of heat from observed temperatures, mass
flows and heat capacity; Fourier's law on the reported wall temperatures;
running folds; closed forms.
"""
import math
import numpy as np

from .sim import Monitor

EPS_R = 1e-9        # relative to the sum of the absolute ledger terms


FLOOR = 2e-14     # x sum(m cp |T|): round-off of T' = T + dT in the code


def _ok(res, floor, *terms, eps=None):
    """|res| within eps * sum|terms| + absolute round-off floor"""
    eps = EPS_R if eps is None else eps
    scale = sum(float(np.sum(np.abs(t))) for t in terms)
    return abs(res) <= eps * scale + floor


def _rel(res, *terms):
    scale = sum(float(np.sum(np.abs(t))) for t in terms)
    if scale == 0.0:
        return abs(res)
    return abs(res) / scale


# ----------------------------------------------------------------------
# region introspection helpers (read-only)
# ----------------------------------------------------------------------

def is_rodded(reg):
    return hasattr(reg, 'n_pin')


def is_sixnode(reg):
    return (not is_rodded(reg)) and getattr(reg, 'model', '') == '6node'


def flowing_bypass(reg):
    return is_rodded(reg) and reg.n_bypass > 0 \
        and float(np.sum(reg.byp_flow_rate)) > 0.0


def stagnant_bypass(reg):
    return is_rodded(reg) and reg.n_bypass > 0 \
        and float(np.sum(reg.byp_flow_rate)) == 0.0


def mass_flows(reg):
    """(interior mass flow per node, bypass mass flow per cell or None)"""
    if is_rodded(reg):
        m_int = np.array(reg.sc_mfr, dtype=float)
        m_byp = None
        if flowing_bypass(reg):
            m_byp = (reg.area['coolant_byp']
                     * (reg.byp_flow_rate
                        / reg.bypass_params['total area'])[:, None])
        return m_int, m_byp
    if is_sixnode(reg):
        return np.ones(6) * reg._scfr, None
    return np.array([reg.flow_rate], dtype=float), None


def duct_cell_width(reg, d, face):
    """width (m) of each duct cell of duct d as seen by the slab model;
    face 0 = inner, 1 = outer (the slab model uses one width per cell)"""
    if is_rodded(reg):
        w = np.array([reg.L[1][1], 2 * reg.d['wcorner'][d, 1]])
        return w[reg._duct_idx]
    return np.ones(6) * reg.duct_perim_over_6


def duct_thickness(reg, d):
    if is_rodded(reg):
        return float(reg.duct_params['thickness'][d])
    return float(reg.duct_thickness)


def enthalpy_flow(reg, cp):
    """Sum m cp T over flowing coolant (interior + flowing bypass)"""
    m_int, m_byp = mass_flows(reg)
    h = float(np.dot(m_int, reg.temp['coolant_int'])) * cp
    if m_byp is not None:
        h += float(np.sum(m_byp * reg.temp['coolant_byp'])) * cp
    return h


class Snap(object):
    """Copy of everything the ledgers need from one assembly"""

    def __init__(self, asm):
        reg = asm.active_region
        self.reg = reg
        self.T_int = reg.temp['coolant_int'].copy()
        self.T_byp = reg.temp['coolant_byp'].copy() \
            if 'coolant_byp' in reg.temp else None
        self.T_mw = reg.temp['duct_mw'].copy()
        self.T_surf = reg.temp['duct_surf'].copy()
        self.pd = dict(asm._power_delivered)
        self.cp = float(reg.coolant.heat_capacity)
        self.k_duct = float(reg.duct.thermal_conductivity)
        self.ebal_power = float(reg.ebal['power'])
        self.ebal_duct = reg.ebal['duct'].copy()
        self.step = int(asm.power._step)
        self.z = float(asm.z)
        self.dp = {k: float(v) for k, v in reg._pressure_drop.items()}
        self.conv_approx = bool(getattr(reg, '_conv_approx', False))
        if is_rodded(reg):
            self.htc = np.array(reg.coolant_int_params['htc'], copy=True)
            if reg.n_bypass > 0:
                self.htc_byp = np.array(reg.coolant_byp_params['htc'],
                                        copy=True)
        else:
            self.htc = reg.coolant_params.get('htc')


def fourier_wall_heat(reg, T_surf, q3, k, d, face):
    """Heat (W/m) leaving duct d through `face` (0 inner, 1 outer) per duct
    cell, from the reported surface temperatures by Fourier's law for the
    slab T(x) = -q x^2/2k + c1 x + c2"""
    L = duct_thickness(reg, d)
    c1 = (T_surf[d, 1] - T_surf[d, 0]) / L
    w = duct_cell_width(reg, d, face)
    if face == 0:      # flux in -x direction at x = -L/2
        flux = q3 * L / 2 + k * c1
    else:              # flux in +x direction at x = +L/2
        flux = q3 * L / 2 - k * c1
    return flux * w


# ----------------------------------------------------------------------
# C01 - per-assembly, per-tick energy ledger
# ----------------------------------------------------------------------

def duct_k(reg, T_mw, d):
    """wall conductivity the slab solution of duct d was computed with: the
    duct material evaluated at the area-weighted mid-wall average"""
    tavg = float(np.dot(T_mw[d], reg.area['duct_mw_over_total'][d]))
    return float(reg.duct._data['thermal_conductivity'](tavg))


class LedgerC01(Monitor):
    """Interior coolant and every flowing bypass are separate accounts:
         cp * sum_i m_i (T_i' - T_i) = pins + coolant heating + heat through
                                        the walls the account touches
    Constant worlds: closes to round-off.  Temperature-dependent worlds: the
    heat capacity the step effectively used must lie within the range of
    cp(T) over the account's mixed-mean temperatures of the previous, the
    current and the next level (i.e. the residual is explicit-step property
    lag and nothing else)."""

    def __init__(self, const_world, adiabatic):
        self.const = const_world
        self.adiabatic = adiabatic
        self.pre = {}
        self.prev_avg = {}

    def on_asm_before(self, sim, r, asm, dz, t_gap, h_gap, adiabatic):
        sn = Snap(asm)
        # conductivities used by the duct solves since the previous update
        # of this region (the last one solved the wall a six-node region is
        # about to use); then start a fresh log for this update
        sn.k_prev = list(sim.klog.get(id(sn.reg), []))
        sim.klog[id(sn.reg)] = []
        self.pre[asm.id] = sn

    @staticmethod
    def _feats(reg, pre):
        f = set()
        if is_rodded(reg):
            f.add('rodded')
            if stagnant_bypass(reg):
                f.add('stagnant_bypass')
            elif reg.n_bypass > 0:
                f.add('flowing_bypass')
        elif is_sixnode(reg):
            f.add('sixnode')
            if reg.mratio != 1.0:
                f.add('convection_factor_lt_1')
        else:
            f.add('simple')
            if reg.mratio != 1.0:
                f.add('convection_factor_lt_1')
        if pre.conv_approx:
            f.add('conv_approx')
        return f

    def on_asm_after(self, sim, r, asm, dz, t_gap, h_gap, adiabatic):
        pre = self.pre.pop(asm.id)
        reg = pre.reg
        m_int, m_byp = mass_flows(reg)
        pd = asm._power_delivered
        P = {k: pd[k] - pre.pd[k] for k in pd}
        P_cool = P['pins'] + P['cool'] + P['refl']
        P_duct = P['duct']
        who = f'asm{asm.id} tick {sim.tick} region {reg.name}'
        feats = self._feats(reg, pre)
        feats.add('const' if self.const else 'tdep')

        # (0) the code's own tally of delivered power
        tally = float(reg.ebal['power']) - pre.ebal_power
        if r._options['ebal'] and not _ok(
                tally - P_cool, 1e-13 * (abs(float(reg.ebal['power']))
                                         + sum(abs(v) for v in pd.values())),
                tally, P_cool):
            sim.violate('ledger.tally_power', who,
                        f'region.ebal power {tally!r} != pins+coolant '
                        f'delivered {P_cool!r}', feats)

        if (not self.const) and pre.conv_approx:
            sim.probe('c01.tdep_conv_approx_skipped')
            return
        # six-node regions advance the coolant before their wall, so the heat
        # of this tick crossed the walls reported at the previous level
        lagged = is_sixnode(reg)
        T_surf = pre.T_surf if lagged else reg.temp['duct_surf']
        T_mw = pre.T_mw if lagged else reg.temp['duct_mw']
        # wall conductivity actually used by each duct solve (observed)
        if lagged:
            kd = [pre.k_prev[-1]] if pre.k_prev else [pre.k_duct]
        else:
            kd = list(sim.klog.get(id(reg), []))
        Q_int, Q_byp, wterms = self._wall_heat(
            r, asm, reg, pre, T_surf, T_mw, kd, dz, adiabatic)

        accounts = [('interior', m_int, pre.T_int, reg.temp['coolant_int'],
                     P_cool + Q_int,
                     [P_cool] + wterms.get('int', []))]
        if m_byp is not None:
            for b in range(reg.n_bypass):
                accounts.append((f'bypass{b}', m_byp[b], pre.T_byp[b],
                                 reg.temp['coolant_byp'][b], Q_byp[b],
                                 wterms.get(b, [])))
        tot_dS = 0.0
        for name, m, T0, T1, heat, terms in accounts:
            dS = float(np.dot(m, T1 - T0))          # kg/s K
            mT = float(np.dot(m, np.abs(T0)))
            avg0 = float(np.dot(m, T0) / np.sum(m))
            avg1 = float(np.dot(m, T1) / np.sum(m))
            key = (asm.id, id(reg), name)
            avgm = self.prev_avg.get(key, avg0)
            self.prev_avg[key] = avg0
            sim.probe('c01.ledger_checked')
            if pre.conv_approx:
                sim.probe('c01.conv_approx_tick')
            if self.const:
                cp = pre.cp
                res = cp * dS - heat
                if not _ok(res, FLOOR * cp * mT, cp * dS, *terms):
                    sim.violate('ledger.wall_flux', f'{who} {name}',
                                f'cp*sum(m dT)={cp * dS!r} heat in='
                                f'{heat!r} residual={res!r}', feats | {name})
                tot_dS += cp * dS
            else:
                f = reg.coolant._data['heat_capacity']
                cps = [float(f(t)) for t in
                       (avgm, avg0, avg1, 0.5 * (avg0 + avg1),
                        0.5 * (avgm + avg0))]
                lo, hi = min(cps), max(cps)
                scale = sum(float(np.sum(np.abs(t))) for t in terms)
                # skip accounts whose net heat is lost in round-off
                if abs(heat) < 1e4 * (FLOOR * hi * mT + EPS_R * scale) \
                        or abs(dS) * lo < 1e4 * FLOOR * hi * mT:
                    sim.probe('c01.tdep_below_noise')
                    continue
                cp_eff = heat / dS
                cp_lo = cp_hi = cp_eff
                if lagged and name == 'interior' and pre.htc:
                    # the wall a six-node region uses was solved one level
                    # earlier with the film coefficient of that level; the
                    # coolant update applies the current one (explicit-step
                    # lag of the film coefficient, proportional to the step)
                    ratio = float(reg.coolant_params['htc']) / float(pre.htc)
                    alt = (P_cool + Q_int * ratio) / dS
                    cp_lo, cp_hi = min(cp_eff, alt), max(cp_eff, alt)
                sim.probe('c01.tdep_cp_checked')
                slack = 1e-6 * hi
                if cp_hi < lo - slack or cp_lo > hi + slack:
                    sim.violate('ledger.cp_window', f'{who} {name}',
                                f'heat in / sum(m dT) = {cp_eff!r} J/kg/K is '
                                f'outside cp over the mixed-mean temperatures '
                                f'of levels j-1..j+1 [{lo!r}, {hi!r}] '
                                f'(T={avgm:.3f},{avg0:.3f},{avg1:.3f})',
                                feats | {name})

        # (2) tally-free adiabatic form (constant worlds)
        if self.const and adiabatic and not stagnant_bypass(reg) \
                and not pre.conv_approx:
            res = tot_dS - P_cool - P_duct
            floor = FLOOR * pre.cp * float(np.dot(m_int, np.abs(pre.T_int)))
            sim.probe('c01.tally_free_checked')
            if not _ok(res, floor, tot_dS, P_cool, P_duct):
                sim.violate('ledger.tally_free', who,
                            f'dH={tot_dS!r} != pins+cool+duct='
                            f'{P_cool + P_duct!r}', feats)

    def _wall_heat(self, r, asm, reg, pre, T_surf, T_mw, kd, dz,
                   adiabatic):
        """Heat (W) received in dz by the interior coolant and by every
        flowing bypass through the duct walls they touch"""
        wterms = {}
        Q_int = 0.0
        Q_byp = {}
        if adiabatic and not is_rodded(reg):
            return 0.0, {}, {}
        if is_rodded(reg):
            pw = asm.power.get_power_sweep(step=pre.step)
            qd = pw['duct']
        else:
            qd = None

        def q3(d):
            if qd is None:
                return np.zeros(T_mw.shape[1])
            return reg._calc_duct_power(qd, d)

        if pre.conv_approx:
            # low-flow approximation: convection + half-wall conduction in
            # series from the mid-wall temperature (constant worlds only)
            k = pre.k_duct
            if is_rodded(reg):
                h = pre.htc[reg.ht['conv']['type']]
                R = 1 / h + 0.5 * reg.d['wall'][0] / k
                w = reg.ht['conv']['ebal']
                qi = w / R * (T_mw[0] - pre.T_int[reg.ht['conv']['ind']]) * dz
                Q_int = float(np.sum(qi))
                wterms['int'] = [qi]
                if flowing_bypass(reg):
                    for i in range(reg.n_bypass):
                        hb = pre.htc_byp[i][reg._duct_idx]
                        w_in = np.array([reg.L[1][1],
                                         2 * reg.d['wcorner'][i, 1]]
                                        )[reg._duct_idx]
                        Q_byp[i] = 0.0
                        wterms[i] = []
                        for dd in (i, i + 1):
                            R = 1 / hb + 0.5 * reg.d['wall'][dd] / k
                            qi = w_in / R * (T_mw[dd] - pre.T_byp[i]) * dz
                            Q_byp[i] += float(np.sum(qi))
                            wterms[i].append(qi)
            else:
                R = 0.5 * reg.duct_thickness / k + 1 / pre.htc
                qi = reg.duct_perim_over_6 / R * (T_mw[0] - pre.T_int) * dz
                Q_int = float(np.sum(qi))
                wterms['int'] = [qi]
            return Q_int, Q_byp, wterms

        # Fourier's law on the reported wall temperatures
        def kk(d):
            return kd[d] if d < len(kd) else pre.k_duct

        qi = fourier_wall_heat(reg, T_surf, q3(0), kk(0), 0, 0) * dz
        Q_int = float(np.sum(qi))
        wterms['int'] = [qi]
        if flowing_bypass(reg):
            for i in range(reg.n_bypass):
                qo = fourier_wall_heat(reg, T_surf, q3(i), kk(i), i, 1) * dz
                qn = fourier_wall_heat(reg, T_surf, q3(i + 1), kk(i + 1),
                                       i + 1, 0) * dz
                Q_byp[i] = float(np.sum(qo) + np.sum(qn))
                wterms[i] = [qo, qn]
        return Q_int, Q_byp, wterms

    @staticmethod
    def _mixed_mean(reg):
        """harness-side mass-flow weighted mean over all flowing coolant"""
        m_int, m_byp = mass_flows(reg)
        num = float(np.dot(m_int, reg.temp['coolant_int']))
        den = float(np.sum(m_int))
        if m_byp is not None:
            num += float(np.sum(m_byp * reg.temp['coolant_byp']))
            den += float(np.sum(m_byp))
        return num / den

    def on_region_before(self, sim, asm, z, t_gap, h_gap, adiabatic):
        self._old_avg = self._mixed_mean(asm.active_region)
        self._old_reg = asm.active_region

    def on_region_after(self, sim, asm, z, t_gap, h_gap, adiabatic):
        new = self._mixed_mean(asm.active_region)
        sim.probe('c01.region_change')
        old_nd = self._old_reg.temp['duct_mw'].shape[0]
        new_nd = asm.active_region.temp['duct_mw'].shape[0]
        if old_nd != new_nd:
            sim.probe('c01.region_change_duct_count')
        if abs(new - self._old_avg) > 1e-11 * abs(self._old_avg):
            feats = {'region_change'}
            for rg, tag in ((self._old_reg, 'from'), (asm.active_region, 'to')):
                if is_rodded(rg):
                    feats.add(tag + '_rodded')
                    feats.add('fs_' + str(rg.corr_names.get('fs')))
                    feats.add(tag + f'_bypasses_{rg.n_bypass}')
            sim.violate('carry_over.mixed_mean',
                        f'asm{asm.id} z={z}',
                        f'mixed mean {self._old_avg!r} -> {new!r}', feats)


# ----------------------------------------------------------------------
# C02 - inter-assembly exchange ledger (flow model) and core balance
# ----------------------------------------------------------------------

class ExchangeC02(Monitor):
    def __init__(self, const_world):
        self.const = const_world
        self.pre = {}
        self.asm_out = {}
        self.floor = {}
        self.H0 = None
        self.row0 = None

    def on_build(self, sim, r):
        pass

    def on_tick_begin(self, sim, r, z, dz, step):
        self.asm_out = {}
        if self.H0 is None and self.const:
            self.H0 = self._total_H(r)
            self.P0 = self._total_P(r)
        if r.core.model is not None:
            self.row0 = r.core.ebal['asm'].copy()
            self.gap0 = r.core.coolant_gap_temp.copy()

    @staticmethod
    def _total_P(r):
        return sum(sum(a._power_delivered.values()) for a in r.assemblies)

    @staticmethod
    def _total_H(r):
        H = 0.0
        for a in r.assemblies:
            reg = a.active_region
            H += enthalpy_flow(reg, float(reg.coolant.heat_capacity))
        if r.core.model == 'flow':
            H += float(np.dot(r.core._sc_mfr, r.core.coolant_gap_temp)) \
                * float(r.core.gap_coolant.heat_capacity)
        return H

    def on_asm_before(self, sim, r, asm, dz, t_gap, h_gap, adiabatic):
        self.pre[asm.id] = Snap(asm)
        sim.klog[id(asm.active_region)] = []

    def on_asm_after(self, sim, r, asm, dz, t_gap, h_gap, adiabatic):
        pre = self.pre.pop(asm.id)
        if not self.const:
            return
        reg = pre.reg
        if adiabatic:
            return
        # heat leaving through the outer face of the outer duct, computed on
        # the assembly's own mesh from what it was given and produced
        T_surf = reg.temp['duct_surf']
        nd = T_surf.shape[0]
        w = duct_cell_width(reg, nd - 1, 1)
        hg = np.asarray(h_gap, dtype=float)
        if hg.shape[0] == 2 and is_rodded(reg):
            hg = hg[reg._duct_idx]
        q_conv = hg * w * (T_surf[nd - 1, 1] - t_gap) * dz
        self.asm_out[asm.id] = (float(np.sum(q_conv)), q_conv, reg)
        # cross-check with Fourier's law on the wall itself
        if is_rodded(reg):
            pw = asm.power.get_power_sweep(step=pre.step)
            q3 = reg._calc_duct_power(pw['duct'], nd - 1)
        else:
            q3 = np.zeros(6)
        kd = sim.klog.get(id(reg), [])
        k_out = kd[nd - 1] if len(kd) >= nd else pre.k_duct
        q_four = fourier_wall_heat(reg, T_surf, q3, k_out, nd - 1, 1) * dz
        # round-off floor: the fluxes are differences of temperatures ~ T
        floor = 1e-12 * float(np.sum(hg * w * dz * (
            np.abs(T_surf[nd - 1, 1]) + np.abs(t_gap))))
        floor += 1e-12 * float(np.sum(
            w * dz * k_out / duct_thickness(reg, nd - 1)
            * (np.abs(T_surf[nd - 1, 1]) + np.abs(T_surf[nd - 1, 0]))))
        self.floor[asm.id] = floor
        rr = _rel(float(np.sum(q_four - q_conv)), q_four, q_conv)
        sim.probe('c02.outer_wall_checked')
        if is_sixnode(reg):
            # the six-node wall is solved after its coolant; the identity is
            # still local to the wall
            pass
        if not _ok(float(np.sum(q_four - q_conv)), floor, q_four, q_conv,
                   eps=1e-8):
            sim.violate('exchange.outer_wall', f'asm{asm.id} tick {sim.tick}',
                        f'outer-duct conduction {float(np.sum(q_four))!r} != '
                        f'convection to gap {float(np.sum(q_conv))!r} '
                        f'rel={rr:.3e}', LedgerC01._feats(reg, pre))

    def on_gap_after(self, sim, core, dz, t_duct):
        if not self.const or core.model != 'flow':
            return
        r = sim.reactor
        rows = core.ebal['asm'] - self.row0
        tot_credit = 0.0
        for ai, a in enumerate(r.assemblies):
            credit = float(np.sum(rows[ai]))
            tot_credit += credit
            if a.id not in self.asm_out:
                continue
            out, q, reg = self.asm_out[a.id]
            if is_sixnode(reg):
                sim.probe('c02.sixnode_skipped')
                continue
            rr = _rel(out - credit, q, rows[ai])
            fl = 2 * self.floor.get(a.id, 0.0) \
                + 1e-12 * float(np.sum(np.abs(core.ebal['asm'][ai])))
            sim.probe('c02.exchange_checked')
            mesh_differs = not bool(np.all(np.isin(
                reg._map['duct2gap'], (0.0, 1.0))))
            if mesh_differs:
                sim.probe('c02.unequal_mesh')
            if not _ok(out - credit, fl, q, rows[ai], eps=1e-8):
                feats = LedgerC01._feats(reg, Snap(a))
                if mesh_differs:
                    feats.add('unequal_mesh')
                sim.violate('exchange.asm_vs_gap',
                            f'asm{a.id} tick {sim.tick}',
                            f'heat leaving assembly {out!r} != credited to '
                            f'gap {credit!r} rel={rr:.3e}', feats)
        # gap coolant: enthalpy rise = sum of credits (conduction only moves)
        cp = float(core.gap_coolant.heat_capacity)
        dHg = cp * float(np.dot(core._sc_mfr,
                                core.coolant_gap_temp - self.gap0))
        rr = _rel(dHg - tot_credit, rows, dHg)
        sim.probe('c02.gap_checked')
        fl = FLOOR * cp * float(np.dot(core._sc_mfr, np.abs(self.gap0))) \
            + 2 * sum(self.floor.values()) \
            + 1e-12 * float(np.sum(np.abs(core.ebal['asm'])))
        if not _ok(dHg - tot_credit, fl, rows, dHg, eps=1e-8):
            sim.violate('exchange.gap_balance', f'tick {sim.tick}',
                        f'gap enthalpy rise {dHg!r} != credits '
                        f'{tot_credit!r} rel={rr:.3e}', {'gap'})

    def on_tick_end(self, sim, r, z, dz, step):
        if self.const and r.core.model is None:
            # adiabatic option: nothing may cross an outer duct
            if np.any(r.core.ebal['asm'] != 0.0):
                sim.violate('exchange.adiabatic', f'tick {step}',
                            'energy credited to the gap with the adiabatic '
                            'option', {'adiabatic'})

    def on_finish(self, sim, r):
        if not self.const or self.H0 is None:
            return
        if r.core.model not in ('flow', None):
            return
        if any(stagnant_bypass(a.active_region) for a in r.assemblies) \
                and False:
            return
        H1 = self._total_H(r)
        P1 = self._total_P(r)
        dH = H1 - self.H0
        dP = P1 - self.P0
        sim.probe('c02.core_checked')
        # stored heat: none in the model (steady walls); stagnant bypass and
        # six-node lag leave an end effect of at most one tick
        rr = _rel(dH - dP, H1 - self.H0, P1)
        self.core_rel = rr
        tol = 1e-8
        lag = any(is_sixnode(rg) or stagnant_bypass(rg) or
                  getattr(rg, '_conv_approx', False)
                  for a in r.assemblies for rg in a.region)
        if lag:
            sim.probe('c02.core_lagged_world')
            return
        if rr > tol:
            sim.violate('core.balance', 'whole sweep',
                        f'enthalpy rise of assemblies+gap {dH!r} != power '
                        f'delivered {dP!r} rel={rr:.3e}',
                        {'core', str(r.core.model)})


# ----------------------------------------------------------------------
# C03 - power ledger
# ----------------------------------------------------------------------

class PowerC03(Monitor):
    def __init__(self, spec, timestep=0):
        self.spec = spec
        self.tp = timestep

    def on_build(self, sim, r):
        from . import world
        spec = self.spec
        pw = spec['power'][self.tp]
        raw = {}
        for a in r.assemblies:
            raw[a.id] = sum(world.analytic_power(pw[str(a.id + 1)]))
        tot = sum(raw.values())
        ren = 1.0
        if spec.get('total_power') is not None:
            ren = spec['total_power'] / tot if tot != 0 else 0.0
        sc = spec.get('scaling', 1.0)
        self.expected = {k: v * ren * sc for k, v in raw.items()}
        exp_total = (spec['total_power'] if spec.get('total_power')
                     is not None else tot) * sc
        self.exp_total = exp_total
        for a in r.assemblies:
            e = self.expected[a.id]
            if abs(a.total_power - e) > 1e-9 * max(abs(e), 1e-300):
                sim.violate('power.assigned', f'asm{a.id}',
                            f'Assembly.total_power {a.total_power!r} != '
                            f'integral of the CSV polynomials {e!r}',
                            {'assigned'})
        s = sum(a.total_power for a in r.assemblies)
        if abs(s - exp_total) > 1e-9 * max(abs(exp_total), 1e-300) or \
                abs(r.total_power - exp_total) > 1e-9 * max(abs(exp_total),
                                                            1e-300):
            sim.violate('power.core_total', 'core',
                        f'sum of assembly powers {s!r} / Reactor.total_power '
                        f'{r.total_power!r} != requested {exp_total!r}',
                        {'core_total'})

    def on_tick_begin(self, sim, r, z, dz, step):
        self.step = step

    def on_asm_before(self, sim, r, asm, dz, t_gap, h_gap, adiabatic):
        # exactly-once, in-order consumption of the precomputed power
        if asm.power._step != self.step - 1:
            sim.violate('power.step_counter', f'asm{asm.id} tick {self.step}',
                        f'power step counter {asm.power._step} at tick '
                        f'{self.step}', {'step_counter'})

    def on_finish(self, sim, r):
        from . import world
        L = self.spec['core']['length']
        types = {t['name']: t for t in self.spec['types']}
        for a in r.assemblies:
            d = sum(a._power_delivered.values())
            e = a.total_power
            sim.probe('c03.delivered_checked')
            if abs(d - e) > 1e-9 * max(abs(e), 1e-300):
                t = types[a.name]
                pa = self.spec['power'][self.tp][str(a.id + 1)]
                zlo, zhi = world.rod_bounds(t, L)
                feats = {'delivered'}
                inside = [b for b in (zlo, zhi)
                          if 0.0 < b < L and b not in pa['zb']]
                if inside and not t.get('lowfi'):
                    feats.add('bundle_bound_inside_power_cell')
                sim.violate('power.delivered', f'asm{a.id}',
                            f'delivered {d!r} != assigned {e!r} '
                            f'(rel {abs(d - e) / max(abs(e), 1e-300):.3e})',
                            feats)
        # end to end: in an adiabatic constant-property world every watt
        # that was assigned - whichever component it was deposited in - has
        # to leave with the coolant (the tallies above are DASSH's own)
        # (only where the scheme passes wall heat on within the same level:
        # pin bundles over the whole length whose bypass gaps, if any, flow,
        # without the low-flow wall approximation; lagged walls - six-node
        # and single-node regions, stagnant gaps - hand part of it to the
        # next level and are C01's business)
        if self.spec.get('const') and \
                self.spec['core']['gap_model'] == 'none' and \
                not getattr(sim, 'truncated', False):
            Tin = float(r.inlet_temp)
            for a in r.assemblies:
                rg = a.active_region
                if len(a.region) != 1 or not is_rodded(rg) or \
                        stagnant_bypass(rg) or \
                        getattr(rg, '_conv_approx', False):
                    continue
                cp = float(rg.coolant.heat_capacity)
                m_int, m_byp = mass_flows(rg)
                m_tot = float(np.sum(m_int)) + (
                    float(np.sum(m_byp)) if m_byp is not None else 0.0)
                dH = enthalpy_flow(rg, cp) - cp * m_tot * Tin
                e = float(a.total_power)
                sim.probe('c03.enthalpy_rise_checked')
                if abs(dH - e) > 1e-8 * abs(e) + 1e-10 * cp * m_tot * Tin:
                    sim.violate(
                        'power.enthalpy_rise', f'asm{a.id}',
                        f'coolant enthalpy rise over the sweep {dH!r} != '
                        f'assigned power {e!r} (adiabatic, constant '
                        f'properties)', {'enthalpy_rise'})


# ----------------------------------------------------------------------
# C14 - pressure drop: closed forms, exactly-once grids
# ----------------------------------------------------------------------

class PressureC14(Monitor):
    def __init__(self, spec, const_world):
        self.spec = spec
        self.const = const_world
        self.pre = {}
        self.grid_hits = {}

    def on_asm_before(self, sim, r, asm, dz, t_gap, h_gap, adiabatic):
        reg = asm.active_region
        self.pre[asm.id] = (reg, {k: float(v) for k, v
                                  in reg._pressure_drop.items()})

    def on_asm_after(self, sim, r, asm, dz, t_gap, h_gap, adiabatic):
        reg, before = self.pre.pop(asm.id)
        for k, v in reg._pressure_drop.items():
            inc = float(v) - before[k]
            if inc < 0.0:
                sim.violate('dp.negative_increment',
                            f'asm{asm.id} tick {sim.tick} {k}',
                            f'increment {inc!r}', {k})
            if k == 'spacer_grid' and inc > 0.0:
                self.grid_hits.setdefault(asm.id, []).append(
                    (sim.tick, float(asm.z) - dz, float(asm.z), inc))

    def on_finish(self, sim, r):
        L = self.spec['core']['length']
        types = {t['name']: t for t in self.spec['types']}
        self.final = {}
        for a in r.assemblies:
            comp = {'friction': 0.0, 'spacer_grid': 0.0, 'gravity': 0.0}
            for rg in a.region:
                for k, v in rg._pressure_drop.items():
                    comp[k] += float(v)
                    if v < 0:
                        sim.violate('dp.negative', f'asm{a.id} {rg.name} {k}',
                                    repr(v), {k})
            tot = sum(comp.values())
            self.final[a.id] = (float(a.pressure_drop), dict(comp))
            sim.probe('c14.additive_checked')
            if abs(a.pressure_drop - tot) > 1e-10 * max(abs(tot), 1e-300):
                sim.violate('dp.additive', f'asm{a.id}',
                            f'Assembly.pressure_drop {a.pressure_drop!r} != '
                            f'sum of regions and components {tot!r}',
                            {'additive'})
            # exactly-once grids
            t = types[a.name]
            sp = t.get('spacer')
            if sp and a.has_rodded:
                zlo, zhi = a.rodded.z
                # the reader keeps grids with z_lo <= z <= z_hi
                zs = [z for z in sp['axial_positions'] if zlo <= z <= zhi]
                # grids that physically lie inside the bundle
                hits = self.grid_hits.get(a.id, [])
                sim.probe('c14.grid_checked', len(zs))
                tol = 1e-8
                # every grid is crossed by exactly one loss increment and
                # every increment crosses at least one grid (several grids
                # inside one step give one increment of several losses; the
                # closed form below fixes the multiplicity)
                owner = {}
                for zg in zs:
                    own = [h[0] for h in hits
                           if h[1] - tol < zg <= h[2] + tol]
                    owner[zg] = own
                lost = [zg for zg in zs if not owner[zg]]
                stray = [h[0] for h in hits
                         if not any(h[1] - tol < zg <= h[2] + tol
                                    for zg in zs)]
                dbl = [zg for zg in zs if len(owner[zg]) > 1
                       and not any(abs(zg - h[2]) <= tol or
                                   abs(zg - h[1]) <= tol for h in hits)]
                if lost or stray or dbl:
                    feats = {'grid_count'}
                    zp = set(float(x) for x in r.z)
                    if any(float(np.around(z, 12)) in zp for z in zs):
                        feats.add('grid_on_plane')
                    if len(set(h[0] for zg in zs for h in hits
                               if h[1] - tol < zg <= h[2] + tol)) < len(zs):
                        feats.add('grids_share_a_step')
                    sim.violate('dp.grid_exactly_once', f'asm{a.id}',
                                f'grids at {zs}: never counted {lost}, '
                                f'counted twice {dbl}, increments without a '
                                f'grid at ticks {stray}; increments at ticks '
                                f'{[h[0] for h in hits]}', feats)
            if not self.const:
                continue
            # closed forms (constant properties)
            for rg in a.region:
                Lr = rg.z[1] - rg.z[0]
                rho = float(rg.coolant.density)
                if is_rodded(rg):
                    ff = float(rg.coolant_int_params['ff'])
                    v = float(rg.coolant_int_params['vel'])
                    de = float(rg.bundle_params['de'])
                else:
                    ff = float(rg.coolant_params['ff'])
                    v = float(rg.coolant_params['vel'])
                    de = float(rg._rr_equiv.bundle_params['de']) \
                        if rg._rr_equiv is not None else float(rg._params['de'])
                fr = ff * Lr * rho * v * v / (2 * de)
                got = float(rg._pressure_drop['friction'])
                sim.probe('c14.closed_form_checked')
                if abs(got - fr) > 1e-9 * max(abs(fr), 1e-300):
                    sim.violate('dp.friction_closed_form',
                                f'asm{a.id} {rg.name}',
                                f'{got!r} != f L rho v^2/(2De) = {fr!r}',
                                {'friction', 'rodded' if is_rodded(rg)
                                 else rg.model})
                # gravity: decided by the input option, not by whatever flag
                # the region object ended up with
                want_g = bool(self.spec['setup'].get(
                    'include_gravity_head_loss'))
                gr = rho * 9.80665 * Lr if want_g else 0.0
                got = float(rg._pressure_drop.get('gravity', 0.0))
                if abs(got - gr) > 1e-9 * max(gr, 1e-300):
                    sim.violate('dp.gravity_closed_form',
                                f'asm{a.id} {rg.name}',
                                f'{got!r} != rho g L = {gr!r} (gravity '
                                f'option {"on" if want_g else "off"})',
                                {'gravity', 'rodded' if is_rodded(rg)
                                 else rg.model})
                if is_rodded(rg) and 'grid' in rg.corr_constants:
                    K = float(rg.coolant_int_params['grid_loss_coeff'])
                    # loss coefficient from the generated world where it is
                    # a closed form of the input (given, or Cigarini - Dalle
                    # Donne with the input's coefficients and solidity)
                    tsp = [t for t in self.spec['types']
                           if t['name'] == a.name]
                    sp = tsp[0].get('spacer') if tsp else None
                    Kx = None
                    if sp and 'loss_coeff' in sp:
                        Kx = float(sp['loss_coeff'])
                    elif sp and sp.get('corr') == 'CDD' and 'solidity' in sp:
                        c = sp.get('corr_coeff') or [3.5, 73.14, -0.264,
                                                     2.79e10, -2.79, 2.0, 2.0]
                        Re = float(rg.coolant_int_params['Re'])
                        Kx = min((c[0] + c[1] * Re**c[2] + c[3] * Re**c[4])
                                 * float(sp['solidity'])**c[6], c[5])
                    if Kx is not None:
                        sim.probe('c14.loss_coeff_checked')
                        if abs(K - Kx) > 1e-9 * max(abs(Kx), 1e-300):
                            sim.violate(
                                'dp.grid_loss_coeff', f'asm{a.id} {rg.name}',
                                f'loss coefficient in use {K!r} != {Kx!r} '
                                f'from the input ({sp.get("corr", "given")})',
                                {'grid_loss_coeff'})
                    zs = [z for z in rg.corr_constants['grid']['z']]
                    gd = len(zs) * K * rho * v * v / 2
                    got = float(rg._pressure_drop['spacer_grid'])
                    if abs(got - gd) > 1e-9 * max(abs(gd), 1e-300):
                        feats = {'grid_closed_form'}
                        zp = set(float(x) for x in r.z)
                        if any(float(np.around(z, 12)) in zp for z in zs):
                            feats.add('grid_on_plane')
                        sim.violate('dp.grid_closed_form',
                                    f'asm{a.id} {rg.name}',
                                    f'{got!r} != n K rho v^2/2 = {gd!r} '
                                    f'(n={len(zs)})', feats)


# ----------------------------------------------------------------------
# C15 - independent running fold of the peaks
# ----------------------------------------------------------------------

class PeakC15(Monitor):
    def __init__(self):
        self.cool = {}
        self.duct = {}      # asm -> {physical duct index from outside: ...}
        self.pin = {}
        self.last = {}

    @staticmethod
    def _upd(store, key, val, z, extra=None):
        cur = store.get(key)
        if cur is None or val > cur[0]:
            store[key] = [val, [z], [extra]]
        elif val == cur[0]:
            cur[1].append(z)
            cur[2].append(extra)

    def on_asm_after(self, sim, r, asm, dz, t_gap, h_gap, adiabatic):
        z = float(asm.z)
        reg = asm.active_region
        self._upd(self.cool, asm.id, float(np.max(reg.temp['coolant_int'])), z)
        mw = reg.temp['duct_mw']
        nd = mw.shape[0]
        for d in range(nd):
            # physical duct identity: counted from the outside
            # (the outer duct continues through every region)
            from_out = nd - 1 - d
            self._upd(self.duct, (asm.id, from_out), float(np.max(mw[d])), z)
        if hasattr(reg, 'pin_model'):
            pt = reg.pin_temps
            cols = {'clad_od': 4, 'clad_mw': 5, 'clad_id': 6,
                    'fuel_od': 7, 'fuel_cl': 8}
            for k, c in cols.items():
                mx = float(np.max(pt[:, c]))
                rows = pt[pt[:, c] == mx].copy()
                rows[:, 1] = z
                self._upd(self.pin, (asm.id, k), mx, z, rows)

    def on_finish(self, sim, r):
        for a in r.assemblies:
            pk = a._peak
            c = self.cool.get(a.id)
            sim.probe('c15.peak_checked')
            if c is not None:
                if pk['cool'][0] != c[0]:
                    sim.violate('peak.coolant', f'asm{a.id}',
                                f'reported {pk["cool"][0]!r} != max over '
                                f'sweep {c[0]!r}', {'coolant'})
                elif not any(abs(pk['cool'][1] - z) < 1e-9 for z in c[1]):
                    sim.violate('peak.coolant_height', f'asm{a.id}',
                                f'height {pk["cool"][1]!r} not in {c[1][:4]}',
                                {'coolant', 'height'})
                if len(c[1]) > 1:
                    sim.probe('c15.tie')
            nslots = len(pk['duct'])
            for s in range(nslots):
                from_out = nslots - 1 - s
                dref = self.duct.get((a.id, from_out))
                if dref is None:
                    continue
                if pk['duct'][s][0] != dref[0]:
                    sim.violate('peak.duct', f'asm{a.id} duct slot {s}',
                                f'reported {pk["duct"][s][0]!r} != max over '
                                f'sweep {dref[0]!r}', {'duct'})
                elif not any(abs(pk['duct'][s][1] - z) < 1e-9
                             for z in dref[1]):
                    sim.violate('peak.duct_height', f'asm{a.id} slot {s}',
                                f'height {pk["duct"][s][1]!r} not in '
                                f'{dref[1][:4]}', {'duct', 'height'})
            if 'pin' in pk:
                for k in pk['pin']:
                    ref = self.pin.get((a.id, k))
                    if ref is None:
                        continue
                    sim.probe('c15.pin_peak_checked')
                    if pk['pin'][k][0] != ref[0]:
                        sim.violate('peak.pin', f'asm{a.id} {k}',
                                    f'reported {pk["pin"][k][0]!r} != max '
                                    f'{ref[0]!r}', {'pin'})
                    else:
                        row = np.array(pk['pin'][k][2], dtype=float)
                        ok = any(np.array_equal(row[2:], rr[2:])
                                 and abs(row[1] - rr[1]) < 1e-9
                                 for rows in ref[2] for rr in rows)
                        if not ok:
                            sim.violate(
                                'peak.pin_profile', f'asm{a.id} {k}',
                                f'radial profile stored with the peak is not '
                                f'the row of the pin/height where it '
                                f'occurred: stored z={row[1]!r} '
                                f'pin={row[2]!r}; occurred at '
                                f'{[(float(x[0][1]), float(x[0][2])) for x in ref[2]][:3]}',
                                {'pin', 'profile'})


# ----------------------------------------------------------------------
# C04 - positivity of the explicit march
# ----------------------------------------------------------------------

def all_coolant(r, with_gap=True):
    """Every coolant temperature of the coupled system (flat array)"""
    parts = []
    for a in r.assemblies:
        rg = a.active_region
        parts.append(rg.temp['coolant_int'].ravel())
        if 'coolant_byp' in rg.temp:
            parts.append(rg.temp['coolant_byp'].ravel())
    if with_gap and r.core.model is not None:
        parts.append(r.core.coolant_gap_temp.ravel())
    return np.concatenate(parts)


def all_walls(r):
    return np.concatenate([a.active_region.temp['duct_surf'].ravel()
                           for a in r.assemblies]
                          + [a.active_region.temp['duct_mw'].ravel()
                             for a in r.assemblies])


class PositivityC04(Monitor):
    """Max-principle invariants every tick + perturbation probes at planned
    ticks (the probe executes the real, unpatched axial_step on two copies
    of the reactor that differ in one cell)"""

    def __init__(self, spec, probes, zero_power):
        self.spec = spec
        self.const = bool(spec.get('const'))
        self.probes = {int(p['tick']): p for p in probes}
        self.zero_power = zero_power
        self.hist = []          # (min, max) hull of the last levels
        self.tin = None
        self.pd0 = None
        self.results = []

    def on_build(self, sim, r):
        self.tin = float(r.inlet_temp)
        n = max(len(r.dz), 1)
        if sim.stop_tick is not None:
            n = min(n, sim.stop_tick)
        # ticks <= 0 count from the last executed tick (0 = last)
        self.probes = {((t - 1) % n + 1 if t > 0 else max(1, n + t)): p
                       for t, p in sorted(self.probes.items(),
                                          key=lambda kv: kv[0] <= 0)}
        # the smallest of the per-assembly / gap limits DASSH computed itself
        try:
            self.limit = float(np.min(r.min_dz['dz']))
        except (AttributeError, KeyError, ValueError, TypeError):
            self.limit = None
        self.diag_ok = {}
        if not self.const and self.limit is not None:
            self._diagonal(sim, r)

    def _diagonal(self, sim, r):
        """Temperature-dependent worlds: DASSH's own limit function,
        evaluated pointwise at temperatures across the inlet..outlet range,
        must nowhere fall below the largest step that is marched (the limit
        has to hold over the whole range, not just where it happened to be
        evaluated)."""
        import pickle
        import dassh
        dz_max = float(np.max(r.dz))
        self.diag_state = {}

        def judge(key, site, lo, hi, fn):
            lo, hi = min(lo, hi), max(lo, hi)
            vals = []
            try:
                for T in np.linspace(lo, hi, 9):
                    dz = fn(float(T))
                    if dz is None:
                        return
                    vals.append((float(dz), float(T)))
            except SystemExit:
                return
            sim.probe('c04.diagonal_checked' + ('_gap' if key == 'gap'
                                                else ''))
            worst = min(vals)
            ends_ok = min(vals[0][0], vals[-1][0]) >= dz_max - 2e-12
            ok = worst[0] >= dz_max - 2e-12
            if min(vals[0][0], vals[-1][0]) > worst[0] * (1 + 1e-12):
                sim.probe('c04.limit_minimum_inside_range')
            self.diag_ok[key] = ok
            self.diag_ends = getattr(self, 'diag_ends', {})
            self.diag_ends[key] = (vals[0][0], vals[-1][0])
            self.diag_state[key] = 'ok' if ok else (
                'interior_minimum' if ends_ok else 'end_point')
            if not ok:
                f = {'tdep', 'limit_range'}
                if key == 'gap':
                    f.add('gap')
                # both ends of the range respect the marched step, the limit
                # dips below it in between: known finding F-C04-2
                if ends_ok:
                    f.add('interior_minimum')
                sim.violate(
                    'positivity.limit_not_over_range', site,
                    f'largest step marched is {dz_max!r} but DASSH\'s own '
                    f'limit at T={worst[1]!r} (inside [{lo!r}, {hi!r}]) is '
                    f'{worst[0]!r} (at the ends {vals[0][0]!r}, '
                    f'{vals[-1][0]!r})', f)

        with sim.paused():
            rr = pickle.loads(pickle.dumps(r))
            n = len(rr.assemblies)
            for ai, a in enumerate(rr.assemblies):
                judge(ai, f'asm{a.id}', float(rr.inlet_temp),
                      float(a._estimated_T_out),
                      lambda T, a=a: dassh.assembly.calculate_min_dz(
                          a, T, T, rr._is_adiabatic)[0])
            if len(r.min_dz['dz']) > n and sim.gap_range:
                judge('gap', 'gap', sim.gap_range[0], sim.gap_range[1],
                      lambda T: dassh.core.calculate_min_dz(
                          rr.core, T, T)[0])

    # -- invariants ----------------------------------------------------------
    def on_tick_begin(self, sim, r, z, dz, step):
        # every step actually marched stays within DASSH's own limit (planes
        # are rounded to 1e-12 m, hence the absolute allowance)
        if self.limit is not None:
            sim.probe('c04.step_vs_limit_checked')
            if dz > self.limit + 2e-12:
                sim.violate(
                    'positivity.step_exceeds_limit', f'tick {step}',
                    f'step {dz!r} marched at z={z!r} exceeds the smallest '
                    f'stability limit {self.limit!r} DASSH computed '
                    f'(req_dz={float(r.req_dz)!r})', {'step_limit'})
        self.pd0 = sum(sum(a._power_delivered.values())
                       for a in r.assemblies)
        if step == 1:
            c = all_coolant(r)
            w = all_walls(r)
            self.hist = [(min(c.min(), w.min()), max(c.max(), w.max()))]
        p = self.probes.get(int(step))
        if p is not None:
            self._probe(sim, r, z, dz, step, p)

    def on_gap_after(self, sim, core, dz, t_duct):
        if core.model not in ('no_flow', 'duct_average'):
            return
        r = sim.reactor
        cu = core._conv_util
        T = core.coolant_gap_temp
        lo = np.full(T.shape, np.inf)
        hi = np.full(T.shape, -np.inf)
        for k in range(3):
            td = t_duct[tuple(cu['inds'][k])]
            if k == 0:
                m = np.ones(T.shape, dtype=bool)
            else:
                m = cu['inds'][k][0] >= 0
            lo = np.where(m, np.minimum(lo, td), lo)
            hi = np.where(m, np.maximum(hi, td), hi)
        if core.model == 'no_flow':
            old = self.gap_old
            adj = old[core._sc_adj - 1]
            m = core._Rcond > 0
            lo = np.minimum(lo, np.where(m, adj, np.inf).min(axis=1))
            hi = np.maximum(hi, np.where(m, adj, -np.inf).max(axis=1))
        tol = 1e-9
        bad = np.where((T < lo - tol) | (T > hi + tol))[0]
        sim.probe('c04.gap_hull_checked')
        if bad.size:
            j = int(bad[0])
            sim.violate('positivity.gap_hull', f'tick {sim.tick} gap cell {j}',
                        f'gap temperature {T[j]!r} outside the hull '
                        f'[{lo[j]!r}, {hi[j]!r}] of its adjacent duct walls '
                        f'and neighbouring gap cells', {str(core.model)})

    def on_gap_before(self, sim, core, dz, t_duct):
        self.gap_old = core.coolant_gap_temp.copy()

    def on_tick_end(self, sim, r, z, dz, step):
        c = all_coolant(r)
        w = all_walls(r)
        tol = 1e-9
        feats = self._world_feats(r)
        if not np.all(np.isfinite(c)):
            sim.violate('positivity.finite', f'tick {step}',
                        'non-finite coolant temperature', feats)
            return
        # nothing below the inlet with non-negative power
        if c.min() < self.tin - tol:
            who = self._locate(r, float(c.min()))
            sim.violate('positivity.below_inlet', f'tick {step} {who[0]}',
                        f'coolant temperature {c.min()!r} below the inlet '
                        f'{self.tin!r}', feats | who[1])
        if self.zero_power and (abs(c - self.tin).max() > tol):
            who = self._locate(r, float(c[np.argmax(abs(c - self.tin))]))
            sim.violate('positivity.zero_power', f'tick {step} {who[0]}',
                        f'without power a temperature moved to '
                        f'{c[np.argmax(abs(c - self.tin))]!r} '
                        f'(inlet {self.tin!r})', feats | who[1])
        # unheated ticks: no new extremum over the closed coupled system
        pd1 = sum(sum(a._power_delivered.values()) for a in r.assemblies)
        lo = min(h[0] for h in self.hist[-2:])
        hi = max(h[1] for h in self.hist[-2:])
        if pd1 == self.pd0 and not self.zero_power:
            sim.probe('c04.unheated_tick')
            if c.max() > hi + tol or c.min() < lo - tol:
                v = float(c.max()) if c.max() > hi + tol else float(c.min())
                who = self._locate(r, v)
                sim.violate('positivity.new_extremum',
                            f'tick {step} {who[0]}',
                            f'unheated step produced {v!r} outside the hull '
                            f'[{lo!r}, {hi!r}] of the previous two levels',
                            feats | who[1])
        self.hist.append((min(c.min(), w.min()), max(c.max(), w.max())))
        self.hist = self.hist[-3:]

    @staticmethod
    def _world_feats(r):
        f = set()
        if r.core.model is not None:
            f.add('gap_' + str(r.core.model))
        else:
            f.add('adiabatic')
        return f

    @staticmethod
    def _locate(r, val):
        for a in r.assemblies:
            rg = a.active_region
            for key in ('coolant_int', 'coolant_byp'):
                if key in rg.temp and np.any(rg.temp[key] == val):
                    f = LedgerC01._feats(rg, Snap(a))
                    f.add(key)
                    return f'asm{a.id} {rg.name} {key}', f
        if r.core.model is not None and np.any(r.core.coolant_gap_temp == val):
            return 'gap', {'gap'}
        return '?', set()

    # -- perturbation probe --------------------------------------------------
    def _probe(self, sim, r, z, dz, step, p):
        import pickle
        try:
            blob = pickle.dumps(r)
        except Exception as e:      # not a verdict
            sim.probe('c04.probe_unpicklable')
            return
        rA = pickle.loads(blob)
        rB = pickle.loads(blob)
        site = self._choose(rB, p)
        if site is None:
            sim.probe('c04.probe_no_site')
            return
        kind, ai, arr_getter, idx, label, feats = site
        delta = 1.0 if self.const else 0.01
        arr_getter(rB)[idx] += delta
        reg0 = [a.active_region_idx for a in rA.assemblies]
        with sim.paused():
            try:
                rA.axial_step(z, dz, step)
                rB.axial_step(z, dz, step)
            except SystemExit:
                sim.probe('c04.probe_exit')
                return
        if [a.active_region_idx for a in rA.assemblies] != reg0:
            # a region hand-over re-meshes the state at the end of the step;
            # cell-wise comparison is meaningless for this tick
            sim.probe('c04.probe_region_change')
            return
        sim.fire('state.perturb')
        sim.probe('c04.probe.' + kind)
        # the update method itself with the walls frozen at their current
        # values (the operator the step limits are derived for)
        self._probe_update_method(sim, blob, z, dz, step, p, kind, ai, idx,
                                  label, feats, delta, r)
        cA = all_coolant(rA)
        cB = all_coolant(rB)
        diff = (cB - cA) / delta
        self_w = float((arr_getter(rB)[idx] - arr_getter(rA)[idx]) / delta)
        tol = 1e-10 if self.const else 2e-2
        feats = set(feats) | self._world_feats(r)
        feats.add('const' if self.const else 'tdep')
        lim = self._limiting(r)
        if lim == (kind, ai):
            sim.probe('c04.probe_limiting_cell')
            feats.add('limiting_cell')
        rec = {'tick': step, 'site': label, 'self_weight': self_w,
               'min': float(diff.min()), 'max': float(diff.max())}
        self.results.append(rec)
        if self_w < -tol:
            sim.violate('positivity.self_weight', f'tick {step} {label}',
                        f'weight of the cell on itself is {self_w!r} < 0 at '
                        f'the selected step dz={float(dz)!r}',
                        feats | {'self_weight'})
        elif diff.min() < -tol:
            sim.violate('positivity.negative_weight', f'tick {step} {label}',
                        f'update operator column has entry {diff.min()!r}',
                        feats)
        if diff.max() > 1 + tol:
            sim.violate('positivity.weight_gt_one', f'tick {step} {label}',
                        f'update operator column has entry {diff.max()!r}',
                        feats)
        # conservation of the column where every heat carrier flows
        if self.const and self._all_flowing(r):
            mA = self._mcp(rA)
            lhs = float(np.dot(mA, diff))
            rhs = float(self._mcp_of(rB, kind, ai, idx))
            sim.probe('c04.probe_conservation')
            if abs(lhs - rhs) > 1e-8 * max(abs(rhs), 1e-300) + 1e-9:
                sim.violate('positivity.column_sum', f'tick {step} {label}',
                            f'flow-weighted column sum {lhs!r} != own flow '
                            f'share {rhs!r}', feats | {'conservation'})

    def _probe_update_method(self, sim, blob, z, dz, step, p, kind, ai, idx,
                             label, feats, delta, r):
        """Unit vector in, operator column out, on the real update methods
        (_calc_coolant_int_temp, _calc_coolant_byp_temp, the low-fidelity
        _calc_coolant_temp, Core._flow_model) at the reactor-chosen step"""
        import pickle
        import dassh
        # only cells whose walls all separate them from another coolant: a
        # wall with an adiabatic far side is a slave of the cell (the step
        # limits rightly leave it out), and the frozen-wall operator says
        # nothing about it
        adi = bool(r._is_adiabatic)
        if kind != 'gap':
            reg0 = r.assemblies[ai].active_region
            if kind == 'node' and adi:
                return
            if kind in ('edge', 'corner') and adi and \
                    getattr(reg0, 'n_bypass', 0) == 0:
                return
            if kind.startswith('byp') and adi and \
                    idx[0] == reg0.n_bypass - 1:
                return
        cols = []
        # frozen coefficients: the unperturbed copy records the temperatures
        # at which the update method evaluates its materials, the perturbed
        # copy is made to evaluate them at exactly those temperatures, so the
        # difference is the column of the linear operator the step limit is
        # meant for (no d(property)/dT terms)
        tapes = {}

        def _tape(mat, key, record):
            orig = mat.update
            if record:
                tapes[key] = []

                def upd(t, _o=orig, _l=tapes[key]):
                    _l.append(float(t))
                    return _o(t)
            else:
                lst = list(tapes.get(key, []))

                def upd(t, _o=orig, _l=lst):
                    return _o(_l.pop(0) if _l else t)
            mat.update = upd

        with sim.paused():
            for d in (0.0, delta):
                rr = pickle.loads(blob)
                try:
                    if kind == 'gap':
                        _tape(rr.core.gap_coolant, 'gap', d == 0.0)
                    else:
                        _rg = rr.assemblies[ai].active_region
                        _tape(_rg.coolant, 'coolant', d == 0.0)
                        _tape(_rg.duct, 'duct', d == 0.0)
                    if kind == 'gap':
                        core = rr.core
                        if core.model != 'flow':
                            return
                        t_duct = np.array([
                            dassh.mesh_functions.map_across_gap(
                                a.duct_outer_surf_temp,
                                a.active_region._map['duct2gap'])
                            for a in rr.assemblies])
                        core._update_coolant_gap_params(
                            core.avg_coolant_gap_temp)
                        core.coolant_gap_temp[idx] += d
                        out = core.coolant_gap_temp + core._flow_model(
                            dz, t_duct)
                        cols.append(np.array(out, dtype=float).ravel())
                        continue
                    a = rr.assemblies[ai]
                    reg = a.active_region
                    adi = bool(rr._is_adiabatic)
                    if kind.startswith('byp'):
                        if not flowing_bypass(reg):
                            return
                        reg.temp['coolant_byp'][idx] += d
                        out = reg.temp['coolant_byp'] + \
                            reg._calc_coolant_byp_temp(dz)
                    elif kind == 'node':
                        reg.temp['coolant_int'][idx] += d
                        out = reg.temp['coolant_int'] + \
                            reg._calc_coolant_temp(dz, {'refl': 0.0}, adi)
                    else:
                        if reg.n_bypass > 0:
                            reg._update_coolant(reg.avg_coolant_int_temp)
                        reg.temp['coolant_int'][idx] += d
                        out = reg.temp['coolant_int'] + \
                            reg._calc_coolant_int_temp(dz, None, None)
                    cols.append(np.array(out, dtype=float).ravel())
                except SystemExit:
                    return
        col = (cols[1] - cols[0]) / delta
        flat = int(np.ravel_multi_index(idx, np.shape(
            r.assemblies[ai].active_region.temp['coolant_byp']))) \
            if kind.startswith('byp') else int(idx)
        self_w = float(col[flat])
        tol = 1e-10 if self.const else 1e-8
        f = set(feats) | self._world_feats(r) | {'update_method'}
        f.add('const' if self.const else 'tdep')
        sim.probe('c04.method_probe.' + kind)
        if not self.const:
            # C04 speaks about material properties inside the inlet..outlet
            # range the limits are evaluated for; a state outside it (wall
            # hotter than the outlet estimate, bypass colder than ...) is
            # counted, not judged
            if kind == 'gap':
                lo, hi = sim.gap_range if sim.gap_range else (
                    float(r.inlet_temp), None)
                if hi is not None:
                    lo, hi = min(lo, hi), max(lo, hi)
            else:
                a0 = r.assemblies[ai]
                lo, hi = float(r.inlet_temp), float(a0._estimated_T_out)
                lo, hi = min(lo, hi), max(lo, hi)
            used = [t for k in ('coolant', 'duct', 'gap')
                    for t in tapes.get(k, [])]
            if hi is None or any(t < lo - 1e-6 or t > hi + 1e-6
                                 for t in used):
                neg = min(self_w, col.min()) < -tol or col.max() > 1 + tol
                explained = True
                key0 = 'gap' if kind == 'gap' else ai
                ends = getattr(self, 'diag_ends', {}).get(key0)
                if neg and hi is not None and ends and hi > lo:
                    # can the excursion explain it?  Extrapolate the
                    # variation of DASSH's own limit over the range linearly
                    # to the excursion (twice, to be generous); a deficit
                    # beyond that is judged like an in-range state
                    exc = max(lo - min(used), max(used) - hi, 0.0)
                    var = abs(ends[0] - ends[1]) / min(ends)
                    allowed = 2.0 * (exc / (hi - lo)) * var + 1e-6
                    deficit = max(-min(self_w, float(col.min())),
                                  float(col.max()) - 1.0)
                    explained = deficit <= allowed
                if neg:
                    sim.probe('c04.method_probe_outside_range_negative')
                if explained:
                    sim.probe('c04.method_probe_outside_range')
                    return
                sim.probe('c04.method_probe_outside_range_unexplained')
            sim.probe('c04.method_probe_tdep_in_range')
            # formula vs operator is settled exactly in constant worlds and
            # the limit over the range by the diagonal invariant; what is
            # left in a temperature-dependent world is that properties and
            # correlated parameters enter one update at *different*
            # temperatures of the range (tracker lag, region average), which
            # the limits - evaluated with both at one temperature - do not
            # cover: known finding F-C04-1 while it stays below 2 %
            worst = min(self_w, float(col.min()), 1.0 - float(col.max()))
            key = 'gap' if kind == 'gap' else ai
            if -2e-2 <= worst < -tol:
                st = getattr(self, 'diag_state', {}).get(key)
                if st == 'ok':
                    f.add('mixed_temperature_lag')
                elif st == 'interior_minimum':
                    f.add('interior_minimum')
        if self._limiting(r) == (kind, ai):
            f.add('limiting_cell')
        if self_w < -tol:
            sim.violate('positivity.update_self_weight',
                        f'tick {step} {label}',
                        f'frozen-wall update: weight of the cell on itself is '
                        f'{self_w!r} < 0 at the selected step dz={float(dz)!r}',
                        f | {'self_weight'})
        elif col.min() < -tol:
            sim.violate('positivity.update_negative_weight',
                        f'tick {step} {label}',
                        f'frozen-wall update column has entry {col.min()!r}', f)
        if col.max() > 1 + tol:
            sim.violate('positivity.update_weight_gt_one',
                        f'tick {step} {label}',
                        f'frozen-wall update column has entry {col.max()!r}',
                        f)

    @staticmethod
    def _limiting(r):
        i = int(np.argmin(r.min_dz['dz']))
        if i >= len(r.assemblies):
            return ('gap', None)
        code = r.min_dz['sc'][i]
        if code == 0:
            return ('node', i)
        c = str(code)[0]
        kind = {'1': 'interior', '2': 'edge', '3': 'corner',
                '6': 'byp_edge', '7': 'byp_corner'}.get(c, '?')
        return (kind, i)

    @staticmethod
    def _all_flowing(r):
        if r.core.model not in (None, 'flow'):
            return False
        for a in r.assemblies:
            rg = a.active_region
            if stagnant_bypass(rg) or is_sixnode(rg) or \
                    getattr(rg, '_conv_approx', False):
                return False
        return True

    @staticmethod
    def _mcp(r):
        parts = []
        for a in r.assemblies:
            rg = a.active_region
            cp = float(rg.coolant.heat_capacity)
            m_int, m_byp = mass_flows(rg)
            parts.append(m_int * cp)
            if 'coolant_byp' in rg.temp:
                if m_byp is not None:
                    parts.append((m_byp * cp).ravel())
                else:
                    parts.append(np.zeros(rg.temp['coolant_byp'].size))
        if r.core.model is not None:
            parts.append(r.core._sc_mfr
                         * float(r.core.gap_coolant.heat_capacity))
        return np.concatenate(parts)

    @staticmethod
    def _mcp_of(r, kind, ai, idx):
        if kind == 'gap':
            return r.core._sc_mfr[idx] * float(r.core.gap_coolant.heat_capacity)
        rg = r.assemblies[ai].active_region
        cp = float(rg.coolant.heat_capacity)
        m_int, m_byp = mass_flows(rg)
        if kind.startswith('byp'):
            return m_byp[idx] * cp
        return m_int[idx] * cp

    def _choose(self, r, p):
        """(kind, asm index, getter, index, label, features)"""
        want = p.get('kind', 'auto')
        byp_from_code = None
        if want == 'auto':
            lim = self._limiting(r)
            want, ai = lim
            if ai is not None and ai < len(r.min_dz['sc']) and \
                    want.startswith('byp'):
                try:
                    byp_from_code = int(str(r.min_dz['sc'][ai]).split('-')[-1])
                except ValueError:
                    byp_from_code = None
        else:
            ai = p.get('asm', 0) % len(r.assemblies)
        if want == 'gap':
            if r.core.model is None:
                return None
            n = r.core.coolant_gap_temp.size
            j = int(p.get('cell', 0)) % n
            # steer to the cell with the smallest own step limit
            if p.get('worst', True):
                j = self._worst_gap_cell(r)
            return ('gap', None, lambda rr: rr.core.coolant_gap_temp, j,
                    f'gap cell {j}', {'gap'})
        a = r.assemblies[ai]
        rg = a.active_region
        if not is_rodded(rg):
            n = rg.temp['coolant_int'].size
            j = int(p.get('cell', 0)) % n
            f = LedgerC01._feats(rg, Snap(a))
            return ('node', ai,
                    lambda rr: rr.assemblies[ai].active_region.temp['coolant_int'],
                    j, f'asm{a.id} {rg.name} node {j}', f)
        sc = rg.subchannel
        ni = sc.n_sc['coolant']['interior']
        ne = sc.n_sc['coolant']['edge']
        nc = sc.n_sc['coolant']['corner']
        f = LedgerC01._feats(rg, Snap(a))
        c = int(p.get('cell', 0))
        if want in ('byp_edge', 'byp_corner') and rg.n_bypass > 0:
            types = sc.type[ni + ne + nc + sc.n_sc['duct']['total']:
                            ni + ne + nc + sc.n_sc['duct']['total']
                            + sc.n_sc['bypass']['total']]
            cand = np.where(types == (5 if want == 'byp_edge' else 6))[0]
            if cand.size == 0:
                return None
            j = int(cand[c % cand.size])
            b = int(p.get('bypass', 0)) % rg.n_bypass
            if byp_from_code is not None and p.get('cell', 0) % 2 == 0:
                b = byp_from_code % rg.n_bypass
            return (want, ai,
                    lambda rr: rr.assemblies[ai].active_region.temp['coolant_byp'],
                    (b, j), f'asm{a.id} bypass{b} cell {j}', f | {want})
        if want == 'interior':
            j = c % ni
        elif want == 'edge':
            j = ni + c % ne
        else:
            want = 'corner'
            j = ni + ne + c % nc
        return (want, ai,
                lambda rr: rr.assemblies[ai].active_region.temp['coolant_int'],
                j, f'asm{a.id} {rg.name} {want} sc {j}', f | {want})

    @staticmethod
    def _worst_gap_cell(r):
        core = r.core
        if core.model != 'flow':
            return 0
        t1 = (core.coolant_gap_params['htc']
              * np.sum(core._conv_util['const'], axis=1) * core._inv_sc_mfr)
        t2 = (core.gap_coolant.thermal_conductivity
              * np.sum(core._Rcond, axis=1) * core._inv_sc_mfr)
        return int(np.argmax(t1 + t2))
