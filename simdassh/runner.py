"""Batch runner: seeded search, known-finding triage, shrinking, replay,
evidence.  Exit codes: 0 held, 1 violation, 2 harness error."""
import os
import sys
import json
import time
import signal
import hashlib
import traceback
import subprocess
import multiprocessing as mp
from concurrent.futures import ProcessPoolExecutor, as_completed

from . import rng

ROOT = os.path.dirname(os.path.dirname(os.path.abspath(__file__)))
# (the sensitivity self-test redirects these so that a mutated tree never
# overwrites the evidence of the real one)
EVIDENCE_DIR = os.environ.get('SIMDASSH_EVIDENCE_DIR') or \
    os.path.join(ROOT, 'evidence')
REPLAY_DIR = os.environ.get('SIMDASSH_REPLAY_DIR') or \
    os.path.join(ROOT, 'replays')
KNOWN = os.path.join(ROOT, 'known_findings.json')
PY = sys.executable


class RunTimeout(BaseException):
    pass


def _alarm(signum, frame):
    raise RunTimeout()


def _tree_sha():
    try:
        out = subprocess.run(['git', '-C',
                              os.environ.get('SIMDASSH_REPO', '/repo'),
                              'rev-parse', 'HEAD'],
                             capture_output=True, text=True, timeout=20)
        return out.stdout.strip()
    except Exception:
        return 'unknown'


def load_known():
    if not os.path.exists(KNOWN):
        return {'findings': [], 'fixed': []}
    with open(KNOWN) as f:
        return json.load(f)


def match_known(prop_id, vio, known):
    """Return the open finding that lists this violation, or None"""
    for f in known.get('findings', []):
        if f.get('property') != prop_id or f.get('status') != 'open':
            continue
        if f.get('oracle') != vio['oracle']:
            continue
        if set(f.get('features', [])) <= set(vio.get('features', [])) \
                and not (set(f.get('excludes', []))
                         & set(vio.get('features', []))):
            return f
    return None


# ----------------------------------------------------------------------
# worker side
# ----------------------------------------------------------------------

_PROP = [None]


def _worker_run(args):
    prop, tier, verif_seed, i, per_run_timeout = args
    seed = rng.run_seed(verif_seed, prop.id, i)
    t0 = time.time()
    old = signal.signal(signal.SIGALRM, _alarm)
    signal.alarm(int(per_run_timeout))
    try:
        case = prop.make_case(seed, tier)
        res = prop.run_case(case)
        res.setdefault('status', 'ok')
        if res.get('violations'):
            res['case'] = case
    except RunTimeout:
        res = {'status': 'timeout', 'violations': []}
    except BaseException as e:      # harness error, never a verdict
        res = {'status': 'error', 'violations': [],
               'error': ''.join(traceback.format_exception(
                   type(e), e, e.__traceback__))[-3000:]}
    finally:
        signal.alarm(0)
        signal.signal(signal.SIGALRM, old)
    res['i'] = i
    res['seed'] = seed
    res['wall'] = time.time() - t0
    return res


def _worker_regress(args):
    """One committed regression case (the minimised world of a defect that
    was repaired): executed like any generated run; if the violation comes
    back it is reported like any other."""
    prop, path, k, per_run_timeout = args
    t0 = time.time()
    old = signal.signal(signal.SIGALRM, _alarm)
    signal.alarm(int(per_run_timeout))
    seed = -1
    try:
        with open(path) as f:
            rec = json.load(f)
        case = rec['case']
        seed = case.get('seed', -1)
        res = prop.run_case(case)
        res.setdefault('status', 'ok')
        if res.get('violations'):
            res['case'] = case
        res.setdefault('probes', {})['regression.replayed'] = 1
    except RunTimeout:
        res = {'status': 'timeout', 'violations': []}
    except BaseException as e:
        res = {'status': 'error', 'violations': [],
               'error': ''.join(traceback.format_exception(
                   type(e), e, e.__traceback__))[-3000:]}
    finally:
        signal.alarm(0)
        signal.signal(signal.SIGALRM, old)
    res['i'] = -1000 - k
    res['seed'] = seed
    res['wall'] = time.time() - t0
    res['regression'] = os.path.basename(path)
    return res


def regression_files(prop_id):
    d = os.path.join(ROOT, 'regressions')
    if not os.path.isdir(d):
        return []
    return [os.path.join(d, f) for f in sorted(os.listdir(d))
            if f.startswith(prop_id + '-') and f.endswith('.json')]


def run_one(prop, case, timeout=600):
    old = signal.signal(signal.SIGALRM, _alarm)
    signal.alarm(int(timeout))
    try:
        res = prop.run_case(case)
        res.setdefault('status', 'ok')
    except RunTimeout:
        res = {'status': 'timeout', 'violations': []}
    finally:
        signal.alarm(0)
        signal.signal(signal.SIGALRM, old)
    return res


# ----------------------------------------------------------------------
# shrinking
# ----------------------------------------------------------------------

def same_failure(res, vio):
    for v in res.get('violations', []):
        if v['oracle'] == vio['oracle'] \
                and sorted(v.get('features', [])) == \
                sorted(vio.get('features', [])):
            return v
    return None


def shrink(prop, case, vio, budget_s):
    """Structured delta debugging: accept a candidate only if the same
    oracle with the same feature signature still fails"""
    t_end = time.time() + budget_s
    best = case
    best_v = vio
    improved = True
    tried = 0
    while improved and time.time() < t_end:
        improved = False
        for cand in prop.shrink_candidates(best):
            if time.time() >= t_end:
                break
            tried += 1
            try:
                res = run_one(prop, cand, timeout=max(
                    5, min(120, t_end - time.time())))
            except BaseException:
                continue
            v = same_failure(res, vio)
            if v is not None:
                best, best_v = cand, v
                improved = True
                break
    return best, best_v, tried


def case_digest(case):
    return hashlib.sha256(json.dumps(case, sort_keys=True).encode()
                          ).hexdigest()[:12]


def write_replay(prop, case, vio, res):
    os.makedirs(REPLAY_DIR, exist_ok=True)
    rec = {'property': prop.id, 'case': case, 'violation': vio,
           'history_sha': res.get('hist_digest'),
           'dassh_tree_sha': _tree_sha()}
    path = os.path.join(REPLAY_DIR, f'{prop.id}-{case_digest(case)}.json')
    with open(path, 'w') as f:
        json.dump(rec, f, indent=1, sort_keys=True)
    return path


def replay(prop, path, quiet=False):
    """Re-execute a replay file; returns (reproduced, res, rec)"""
    with open(path) as f:
        rec = json.load(f)
    res = run_one(prop, rec['case'])
    v = same_failure(res, rec['violation'])
    same_hist = (rec.get('history_sha') is None
                 or rec.get('history_sha') == res.get('hist_digest'))
    return (v is not None), same_hist, res, rec


def verify_replay_fresh(prop_id, path):
    """Replay in a fresh interpreter; must fail the same way"""
    env = dict(os.environ)
    env['PYTHONHASHSEED'] = '0'
    p = subprocess.run([PY, os.path.join(ROOT, 'check'), prop_id,
                        '--replay', path], capture_output=True, text=True,
                       env=env, timeout=900)
    return p.returncode == 1 and 'VIOLATION' in p.stdout, p.stdout[-2000:]


# ----------------------------------------------------------------------
# batch
# ----------------------------------------------------------------------

def run_batch(prop, tier, verif_seed, workers=None):
    t0 = time.time()
    cfg = prop.budget(tier)
    n_runs = cfg['runs']
    wall = cfg['wall_s']
    per_run = cfg.get('per_run_timeout', 300)
    workers = workers or int(os.environ.get('VERIF_WORKERS', '16'))
    print(f'SEED {verif_seed} property={prop.id} tier={tier} runs<={n_runs} '
          f'wall<={wall}s workers={workers}', flush=True)
    results = []
    ctx = mp.get_context('fork')
    next_i = 0
    stop_submitting = False
    with ProcessPoolExecutor(max_workers=workers, mp_context=ctx) as ex:
        pending = set()
        for k, path in enumerate(regression_files(prop.id)):
            pending.add(ex.submit(_worker_regress,
                                  (prop, path, k, per_run)))
        while True:
            while (not stop_submitting and next_i < n_runs
                   and len(pending) < workers * 2):
                pending.add(ex.submit(
                    _worker_run, (prop, tier, verif_seed, next_i, per_run)))
                next_i += 1
            if not pending:
                break
            done = []
            try:
                for fut in as_completed(list(pending), timeout=5):
                    done.append(fut)
                    break
            except Exception:
                pass
            for fut in list(pending):
                if fut.done() and fut not in done:
                    done.append(fut)
            for fut in done:
                pending.discard(fut)
                try:
                    results.append(fut.result())
                except BaseException as e:
                    results.append({'status': 'error', 'violations': [],
                                    'error': repr(e), 'i': -1, 'seed': -1,
                                    'wall': 0.0})
            if time.time() - t0 > wall:
                stop_submitting = True
            if time.time() - t0 > wall + per_run + 60:
                for fut in pending:
                    fut.cancel()
                results.append({'status': 'error', 'violations': [],
                                'error': 'batch overran its wall budget',
                                'i': -1, 'seed': -1, 'wall': 0.0})
                break
    results.sort(key=lambda r: r['i'])
    return finish_batch(prop, tier, verif_seed, results, t0, cfg)


def finish_batch(prop, tier, verif_seed, results, t0, cfg):
    known = load_known()
    errors = [r for r in results if r['status'] in ('error',)]
    timeouts = [r for r in results if r['status'] == 'timeout']
    ok = [r for r in results if r['status'] in ('ok', 'discard')]
    evaluated = [r for r in results if r['status'] == 'ok']
    discards = [r for r in results if r['status'] == 'discard']

    # --- violations: triage against the known findings -----------------
    unknown = []
    known_hits = {}
    for r in evaluated:
        for v in r.get('violations', []):
            f = match_known(prop.id, v, known)
            if f is not None:
                known_hits.setdefault(f['id'], []).append((r, v))
            else:
                unknown.append((r, v))

    exit_code = 0
    lines = []
    for fid, hits in sorted(known_hits.items()):
        f = [x for x in known['findings'] if x['id'] == fid][0]
        lines.append(f'KNOWN-FINDING: property={prop.id} {f["what"]} '
                     f'[{fid}; hit {len(hits)}x, e.g. seed {hits[0][0]["seed"]}]')

    replay_paths = []
    if unknown:
        # one replay per distinct failure signature (at most 3)
        seen = {}
        for r, v in unknown:
            key = (v['oracle'], tuple(sorted(v.get('features', []))))
            seen.setdefault(key, (r, v))
        for key, (r, v) in list(seen.items())[:3]:
            case = r['case']
            sb = cfg.get('shrink_s', 60)
            if os.environ.get('SIMDASSH_NO_SHRINK'):
                sb = 0          # sensitivity self-test: only the verdict
            try:
                small, v2, tried = shrink(prop, case, v, sb)
            except BaseException:
                small, v2, tried = case, v, 0
            res2 = run_one(prop, small)
            v3 = same_failure(res2, v) or v2
            path = write_replay(prop, small, v3, res2)
            okf, out = verify_replay_fresh(prop.id, path)
            if not okf:
                # fall back to the unshrunk case
                res0 = run_one(prop, case)
                path = write_replay(prop, case, v, res0)
                okf, out = verify_replay_fresh(prop.id, path)
            tag = '' if okf else ' (WARNING: fresh replay did not reproduce)'
            lines.append(f'VIOLATION property={prop.id} replay={path}')
            lines.append(f'  oracle={v3["oracle"]} site={v3["site"]} '
                         f'detail={v3["detail"]} features={v3.get("features")}'
                         f' seed={r["seed"]} shrink_tried={tried}{tag}')
            replay_paths.append(path)
        exit_code = 1

    # --- reach / self checks --------------------------------------------
    probes = {}
    fired = {}
    for r in evaluated:
        for k, n in (r.get('probes') or {}).items():
            probes[k] = probes.get(k, 0) + n
        for k, n in (r.get('fired') or {}).items():
            fired[k] = fired.get(k, 0) + n
    self_fail = []
    for k in cfg.get('require_probes', []):
        if probes.get(k, 0) == 0:
            self_fail.append(f'probe {k} never hit')
    for k in cfg.get('require_fired', []):
        if fired.get(k, 0) == 0:
            self_fail.append(f'fault kind {k} never fired')
    if len(evaluated) < cfg.get('min_evaluated', 1):
        self_fail.append(f'only {len(evaluated)} runs evaluated')

    wall = time.time() - t0
    feats = set()
    scheds = set()
    n_nontrivial = 0
    for r in evaluated:
        key = (tuple(r.get('features') or ()), r.get('sched_digest'))
        if r.get('nontrivial', True):
            if key not in feats:
                n_nontrivial += 1
            feats.add(key)
        if r.get('sched_digest'):
            scheds.add(r['sched_digest'])
    samples = [r.get('sample') for r in evaluated if r.get('sample')][:3]
    if not samples:
        samples = [{'seed': r['seed'], 'features': r.get('features')}
                   for r in evaluated[:3]] or [{'note': 'no run evaluated'}]
    n_exec = sum(int(r.get('executions', 1)) for r in evaluated)
    ticks = sum(int(r.get('ticks', 0)) for r in evaluated)
    length = sum(float(r.get('length_m', 0.0)) for r in evaluated)
    ev = {
        'property_id': prop.id,
        'tier': tier,
        'seed': int(verif_seed),
        'level': prop.level,
        'coverage': {
            'evaluations': max(len(evaluated), 0),
            'distinct_nontrivial': n_nontrivial,
            'rule': prop.rule,
            'samples': samples,
            'runs_total': len(results),
            'runs_discarded': len(discards),
            'discard_reasons': _count(r.get('reason', '?')
                                      for r in discards),
            'runs_timeout': len(timeouts),
            'runs_harness_error': len(errors),
            'dassh_executions': n_exec,
            'simulated_ticks': ticks,
            'simulated_length_m': round(length, 3),
            'runs_per_hour': round(len(evaluated) / max(wall, 1e-9) * 3600),
            'distinct_schedules': len(scheds),
            'faults_fired': fired,
            'probes': probes,
            'known_findings_hit': {k: len(v) for k, v in known_hits.items()},
            'real_components': prop.real,
            'stub_components': prop.stub,
            'self_check_failures': self_fail,
        },
        'assumptions': prop.assumptions,
        'wall_s': round(wall, 2),
        'violations': len(unknown),
    }
    os.makedirs(EVIDENCE_DIR, exist_ok=True)
    with open(os.path.join(EVIDENCE_DIR, f'{prop.id}.json'), 'w') as f:
        json.dump(ev, f, indent=1, sort_keys=True, default=str)

    for ln in lines:
        print(ln, flush=True)
    print(f'{prop.id} {tier}: runs={len(results)} evaluated={len(evaluated)} '
          f'discarded={len(discards)} timeouts={len(timeouts)} '
          f'errors={len(errors)} unknown_violations={len(unknown)} '
          f'known_hits={sum(len(v) for v in known_hits.values())} '
          f'distinct={n_nontrivial} ticks={ticks} wall={wall:.1f}s',
          flush=True)
    print('  fired:', json.dumps(fired, sort_keys=True))
    print('  probes:', json.dumps(probes, sort_keys=True))
    if exit_code == 1:
        return 1
    if errors:
        print('HARNESS-ERROR (first):', errors[0].get('error'), flush=True)
        return 2
    if timeouts:
        print(f'HARNESS-ERROR: {len(timeouts)} runs hit the per-run timeout '
              f'(seeds {[r["seed"] for r in timeouts[:5]]})', flush=True)
        return 2
    if self_fail:
        print('HARNESS-ERROR: self-check failed:', self_fail, flush=True)
        return 2
    return 0


def _count(it):
    d = {}
    for x in it:
        d[x] = d.get(x, 0) + 1
    return d
