"""One integer decides everything.

run seed = H(VERIF_SEED, property, i); every named sub-stream is a
numpy Generator keyed by (run seed, stream name) so that shrinking one
dimension of a case does not shift the draws of another.  Nothing here
reads a clock, the environment or the hash seed.
"""
import hashlib
import numpy as np


def h64(*parts):
    m = hashlib.sha256()
    for p in parts:
        m.update(repr(p).encode())
        m.update(b'\x00')
    return int.from_bytes(m.digest()[:8], 'big')


def run_seed(verif_seed, prop, i):
    return h64('run', int(verif_seed), str(prop), int(i))


class Streams(object):
    """Named, independent PRNG streams for one simulated run"""

    def __init__(self, seed):
        self.seed = int(seed)
        self._s = {}

    def __call__(self, name):
        if name not in self._s:
            self._s[name] = np.random.Generator(
                np.random.PCG64(h64('stream', self.seed, name)))
        return self._s[name]


def choice(g, seq):
    return seq[int(g.integers(0, len(seq)))]


def loguniform(g, lo, hi):
    return float(np.exp(g.uniform(np.log(lo), np.log(hi))))


def chance(g, p):
    return bool(g.random() < p)
