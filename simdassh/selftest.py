"""Self-tests that gate the checks.

determinism  every check's first N runs are executed in fresh interpreters
             twice, with 1 and 16 harness workers and under two values of
             PYTHONHASHSEED; the digests of everything a run decides and
             observes (status, history digest, schedule digest, probes,
             faults fired, violations) must be identical.
sensitivity  a catalogue of mutants (reverts of the repairs made to /repo and
             hand-written breaks, mutants/*.json) is applied to a scratch
             worktree outside /repo and /verif; the corresponding quick check
             must report a violation (exit 1) there.  Evidence and replays of
             those runs go to a temporary directory.
"""
import hashlib
import json
import multiprocessing as mp
import os
import shutil
import subprocess
import sys
import tempfile
import time
from concurrent.futures import ProcessPoolExecutor

from . import runner, props, sim

ROOT = runner.ROOT


def _summary(r):
    v = sorted((x['oracle'], x['site'], tuple(x['features']))
               for x in r.get('violations', []))
    return (r['i'], r['status'], r.get('reason'), r.get('hist_digest'),
            str(r.get('sched_digest')), sorted((r.get('probes') or {}).items()),
            sorted((r.get('fired') or {}).items()), v, r.get('ticks'))


def digest_runs(prop, tier, seed, n, workers):
    sim.quiet_logging()
    out = []
    with ProcessPoolExecutor(workers, mp_context=mp.get_context('fork')) as ex:
        for r in ex.map(runner._worker_run,
                        [(prop, tier, seed, i, 600) for i in range(n)]):
            out.append(_summary(r))
    out.sort()
    for s in out:
        print('RUN', s[0], s[1], hashlib.sha256(repr(s).encode()).hexdigest()[:16])
    print('DIGEST', hashlib.sha256(repr(out).encode()).hexdigest())
    return 0


def _run_digest(pid, n, workers, hashseed, seed=0):
    env = dict(os.environ)
    env['PYTHONHASHSEED'] = str(hashseed)
    p = subprocess.run([sys.executable, os.path.join(ROOT, 'check'), pid,
                        '--digest', str(n), '--workers', str(workers),
                        '--seed', str(seed)],
                       capture_output=True, text=True, env=env, timeout=3000)
    lines = [ln for ln in p.stdout.splitlines() if ln.startswith('RUN')]
    dg = [ln for ln in p.stdout.splitlines() if ln.startswith('DIGEST')]
    return (dg[0].split()[1] if dg else None), lines, p.stderr[-500:]


def determinism(pids, n):
    bad = 0
    report = {}
    for pid in pids:
        t0 = time.time()
        variants = [(16, 0), (16, 0), (1, 0), (16, 12345)]
        res = [_run_digest(pid, n if w > 1 else max(4, n // 6), w, hs)
               for (w, hs) in variants]
        ref = res[0]
        ok = True
        for (w, hs), (dg, lines, err) in zip(variants, res):
            if dg is None:
                ok = False
                print(f'  {pid}: workers={w} hashseed={hs}: no digest '
                      f'({err[-200:]})')
                continue
            # compare run by run (the 1-worker variant runs fewer)
            mine = dict((ln.split()[1], ln) for ln in lines)
            theirs = dict((ln.split()[1], ln) for ln in ref[1])
            diff = [k for k in mine if mine[k] != theirs.get(k)]
            if diff:
                ok = False
                print(f'  {pid}: workers={w} hashseed={hs}: runs {diff[:5]} '
                      f'differ from the reference execution')
        report[pid] = {'ok': ok, 'runs': n, 'wall_s': round(time.time() - t0)}
        print(f'determinism {pid}: {"ok" if ok else "FAILED"} '
              f'({n} runs x 4 executions, {time.time() - t0:.0f}s)', flush=True)
        bad += (not ok)
    return bad, report


def _apply(wt, m):
    if m['kind'] == 'revert':
        p = subprocess.run(['git', '-C', wt, 'revert', '--no-commit',
                            m['commit']], capture_output=True, text=True)
        return p.returncode == 0, p.stderr[-300:]
    if m['kind'] == 'patch':
        p = subprocess.run(['git', '-C', wt, 'apply', '--whitespace=nowarn',
                            os.path.join(ROOT, m['patch'])],
                           capture_output=True, text=True)
        return p.returncode == 0, p.stderr[-300:]
    if m['kind'] == 'replace':
        path = os.path.join(wt, m['file'])
        s = open(path).read()
        if s.count(m['old']) != 1:
            return False, f'pattern found {s.count(m["old"])} times'
        open(path, 'w').write(s.replace(m['old'], m['new']))
        p = subprocess.run([sys.executable, '-m', 'py_compile', path],
                           capture_output=True, text=True)
        return p.returncode == 0, p.stderr[-300:]
    return False, 'unknown kind'


def sensitivity(only=None, tier='quick'):
    cat = json.load(open(os.path.join(ROOT, 'mutants', 'catalogue.json')))
    repo = '/repo'
    results = []
    missed = 0
    for m in cat:
        if only and m['property'] not in only and m['name'] not in only:
            continue
        base = tempfile.mkdtemp(prefix='simdassh_mut_')
        wt = os.path.join(base, 'tree')
        ev = os.path.join(base, 'ev')
        try:
            subprocess.run(['git', '-C', repo, 'worktree', 'add', '-q',
                            '--detach', wt, 'HEAD'], check=True,
                           capture_output=True)
            ok, why = _apply(wt, m)
            if not ok:
                results.append({'name': m['name'], 'property': m['property'],
                                'outcome': 'not_applicable', 'why': why})
                print(f'mutant {m["name"]}: could not be applied ({why})',
                      flush=True)
                continue
            env = dict(os.environ)
            env['SIMDASSH_REPO'] = wt
            env['SIMDASSH_EVIDENCE_DIR'] = ev
            env['SIMDASSH_REPLAY_DIR'] = os.path.join(base, 'replays')
            env['SIMDASSH_NO_SHRINK'] = '1'
            t0 = time.time()
            p = subprocess.run([sys.executable, os.path.join(ROOT, 'check'),
                                m['property'], '--tier', tier],
                               capture_output=True, text=True, env=env,
                               timeout=3000)
            vio = [ln for ln in p.stdout.splitlines()
                   if ln.startswith('VIOLATION') or ln.startswith('  oracle=')]
            has_v = any(ln.startswith('VIOLATION property=')
                        for ln in p.stdout.splitlines())
            if p.returncode == 1 and has_v:
                out = 'caught'
            elif p.returncode == 0 and not has_v:
                out = 'MISSED'
            else:
                out = 'harness_error'
            if m.get('expected') == 'equivalent':
                # documented equivalent mutant: reported, not counted
                out = 'equivalent_' + out.lower()
            else:
                missed += (out != 'caught')
            results.append({'name': m['name'], 'property': m['property'],
                            'outcome': out, 'wall_s': round(time.time() - t0),
                            'first': vio[1][:300] if len(vio) > 1 else ''})
            print(f'mutant {m["name"]} [{m["property"]}]: {out} '
                  f'({time.time() - t0:.0f}s) {vio[1][:160] if len(vio) > 1 else ""}',
                  flush=True)
            if out.endswith('harness_error'):
                print(p.stdout[-600:], p.stderr[-600:])
        finally:
            subprocess.run(['git', '-C', repo, 'worktree', 'remove',
                            '--force', wt], capture_output=True)
            shutil.rmtree(base, ignore_errors=True)
    return missed, results


def main(args):
    pids = props.IDS
    if args.mode in ('determinism', 'all'):
        bad, rep = determinism(pids, 24)
        if bad:
            print('SELFTEST determinism FAILED')
            return 2
    if args.mode in ('sensitivity', 'all'):
        only = set(args.only.split(',')) if getattr(args, 'only', None) else None
        missed, res = sensitivity(only)
        if not only:
            with open(os.path.join(ROOT, 'mutants', 'last_report.json'),
                      'w') as f:
                json.dump(res, f, indent=1)
        if missed:
            print(f'SELFTEST sensitivity: {missed} mutants not caught')
            return 2
    print('SELFTEST ok')
    return 0
