"""The simulator: seams installed at run time on the real DASSH classes.

Everything a run decides comes from the `Plan` it is given (explicit
permutations, tick requests, faults); the plan is drawn from the run's
PRNG streams by the caller and is stored verbatim in replay files.

Seams (all reversible, installed by `Sim.__enter__`):
  * assembly scheduler  - Reactor._calculate_asm_temperatures deferred and
                          executed in the planned order once all N calls of
                          the tick have been collected
  * region scheduler    - Assembly.update_region deferred to the end of
                          Reactor.axial_step and flushed in planned order
  * observation points  - Assembly.calculate, Core.calculate_gap_temperatures,
                          Assembly.update_region, Reactor.axial_step,
                          LoggedClass.log
  * cache buggify       - _MatTracker.update forces a recalculation at
                          planned ticks
  * tick crash          - SimCrash raised before a planned tick
"""
import os
import sys
import io
import copy
import pickle
import hashlib
import logging
import shutil
import tempfile
import contextlib
import numpy as np

import dassh
from dassh import reactor as _reactor_mod
from dassh import assembly as _assembly_mod
from dassh import core as _core_mod
from dassh import logged_class as _lc_mod
from dassh import material as _material_mod


import re as _re
_SCRATCH = _re.compile(r'\S*simdassh_[A-Za-z0-9_]+')


class SimCrash(BaseException):
    """Process death injected by the simulator"""


class StopSweep(BaseException):
    """Planned end of a truncated sweep (not a fault)"""


class BudgetExceeded(BaseException):
    """Deterministic step budget exceeded (stands in for a hang)"""

    def __init__(self, where):
        BaseException.__init__(self, where)
        self.where = where


# ----------------------------------------------------------------------
# quiet logging: DASSH logs through the std logging module; the simulator
# observes verdicts at LoggedClass.log and silences the handlers
# ----------------------------------------------------------------------

def quiet_logging():
    lg = logging.getLogger('dassh')
    lg.handlers[:] = []
    lg.addHandler(logging.NullHandler())
    lg.propagate = False
    lg.setLevel(logging.CRITICAL + 10)


@contextlib.contextmanager
def scratch_dir(prefix='simdassh_'):
    base = os.environ.get('SIMDASSH_TMP') or None
    d = tempfile.mkdtemp(prefix=prefix, dir=base)
    try:
        yield d
    finally:
        shutil.rmtree(d, ignore_errors=True)


# ----------------------------------------------------------------------
# history
# ----------------------------------------------------------------------

def sha_arrays(*arrs):
    m = hashlib.sha256()
    for a in arrs:
        if a is None:
            m.update(b'N')
        elif isinstance(a, np.ndarray):
            m.update(np.ascontiguousarray(a).tobytes())
        else:
            m.update(repr(a).encode())
    return m.hexdigest()[:16]


class History(object):
    """Append-only event log; `seq` is the only notion of order"""

    def __init__(self, keep=True):
        self.seq = 0
        self.events = []
        self._m = hashlib.sha256()
        self.keep = keep
        self.counts = {}

    def add(self, kind, **kw):
        self.seq += 1
        ev = (self.seq, kind, kw)
        self.counts[kind] = self.counts.get(kind, 0) + 1
        self._m.update(repr((kind, sorted(kw.items()))).encode())
        if self.keep:
            self.events.append(ev)
        return self.seq

    def digest(self):
        return self._m.hexdigest()


# ----------------------------------------------------------------------
# plan
# ----------------------------------------------------------------------

class Plan(object):
    """Explicit schedule / fault plan for one execution

    perms        : {tick(int) -> list order} assembly update order
    perm_default : 'identity' | 'reverse' | ('seeded', int seed)
    region_perms : same for region activations
    force_update : set of ticks at which the correlation cache is bypassed
    crash_tick   : tick before which SimCrash is raised (None)
    """

    def __init__(self, perms=None, perm_default='identity',
                 region_default='identity', force_update=None,
                 crash_tick=None):
        self.perms = {int(k): list(v) for k, v in (perms or {}).items()}
        self.perm_default = perm_default
        self.region_default = region_default
        self.force_update = set(force_update or [])
        self.crash_tick = crash_tick

    def to_json(self):
        return {'perms': {str(k): v for k, v in self.perms.items()},
                'perm_default': self.perm_default,
                'region_default': self.region_default,
                'force_update': sorted(self.force_update),
                'crash_tick': self.crash_tick}

    @classmethod
    def from_json(cls, d):
        d = d or {}
        pd = d.get('perm_default', 'identity')
        if isinstance(pd, list):
            pd = tuple(pd)
        rd = d.get('region_default', 'identity')
        if isinstance(rd, list):
            rd = tuple(rd)
        return cls(perms=d.get('perms'), perm_default=pd,
                   region_default=rd,
                   force_update=d.get('force_update'),
                   crash_tick=d.get('crash_tick'))

    def order(self, tick, n, which='asm'):
        if which == 'asm' and tick in self.perms:
            o = self.perms[tick]
            if sorted(o) == list(range(n)):
                return list(o)
        dflt = self.perm_default if which == 'asm' else self.region_default
        if dflt == 'identity':
            return list(range(n))
        if dflt == 'reverse':
            return list(range(n - 1, -1, -1))
        if isinstance(dflt, tuple) and dflt[0] == 'seeded':
            from .rng import h64
            g = np.random.Generator(np.random.PCG64(
                h64('perm', dflt[1], which, tick, n)))
            return [int(x) for x in g.permutation(n)]
        if isinstance(dflt, tuple) and dflt[0] == 'rotate':
            k = (dflt[1] + tick) % max(n, 1)
            return list(range(k, n)) + list(range(0, k))
        raise ValueError(dflt)


# ----------------------------------------------------------------------
# the simulator
# ----------------------------------------------------------------------

_ACTIVE = [None]


def active():
    return _ACTIVE[0]


class Monitor(object):
    """Base class of oracles; all hooks optional"""

    def on_build(self, sim, r):
        pass

    def on_tick_begin(self, sim, r, z, dz, step):
        pass

    def on_asm_before(self, sim, r, asm, dz, t_gap, h_gap, adiabatic):
        pass

    def on_asm_after(self, sim, r, asm, dz, t_gap, h_gap, adiabatic):
        pass

    def on_gap_before(self, sim, core, dz, t_duct):
        pass

    def on_gap_after(self, sim, core, dz, t_duct):
        pass

    def on_region_before(self, sim, asm, z, t_gap, h_gap, adiabatic):
        pass

    def on_region_after(self, sim, asm, z, t_gap, h_gap, adiabatic):
        pass

    def on_tick_end(self, sim, r, z, dz, step):
        pass

    def on_finish(self, sim, r):
        pass


class Violation(object):
    def __init__(self, oracle, site, detail, features=()):
        self.oracle = oracle
        self.site = site
        self.detail = detail
        self.features = tuple(sorted(features))

    def to_json(self):
        return {'oracle': self.oracle, 'site': self.site,
                'detail': self.detail, 'features': list(self.features)}

    def key(self):
        return (self.oracle, self.features)

    def __repr__(self):
        return f'Violation({self.oracle} @ {self.site}: {self.detail})'


class Sim(object):
    """Installs the seams; one Sim per execution of DASSH code"""

    def __init__(self, plan=None, monitors=(), history=None,
                 record_state=False):
        self.plan = plan or Plan()
        self.monitors = list(monitors)
        self.hist = history or History()
        self.violations = []
        self.probes = {}
        self.fired = {}
        self.tick = 0
        self.reactor = None
        self._pending = []
        self._pending_regions = []
        self.gap_range = None
        self._in_flush = False
        self._saved = []
        self.record_state = record_state
        self.max_planes = 200000
        self.stop_tick = None
        self.truncated = False
        self.klog = {}
        self.state_log = []      # per tick list of per-asm state digests
        self._asm_cursor = None

    # -- bookkeeping ----------------------------------------------------
    def probe(self, name, n=1):
        self.probes[name] = self.probes.get(name, 0) + n

    def fire(self, name, n=1):
        self.fired[name] = self.fired.get(name, 0) + n

    def violate(self, oracle, site, detail, features=()):
        v = Violation(oracle, site, detail, features)
        self.violations.append(v)
        self.hist.add('violation', oracle=oracle, site=site)
        return v

    # -- install / remove -----------------------------------------------
    def _patch(self, obj, name, new):
        self._saved.append((obj, name, obj.__dict__.get(name, None),
                            name in obj.__dict__))
        setattr(obj, name, new)

    def __enter__(self):
        assert _ACTIVE[0] is None, 'nested simulators'
        _ACTIVE[0] = self
        sim = self
        R = _reactor_mod.Reactor
        A = _assembly_mod.Assembly
        C = _core_mod.Core
        LC = _lc_mod.LoggedClass
        MT = _material_mod._MatTracker

        orig_calc_asm = R._calculate_asm_temperatures
        orig_axial_step = R.axial_step
        orig_asm_calc = A.calculate
        orig_update_region = A.update_region
        orig_gap = C.calculate_gap_temperatures
        orig_log = LC.log
        orig_mt_update = MT.update
        orig_init = R.__init__

        def calc_asm(rx, asm, i, z, dz, dump_step):
            if sim._in_flush:
                return orig_calc_asm(rx, asm, i, z, dz, dump_step)
            if sim.plan.perm_default == 'identity' and not sim.plan.perms:
                # identity plan: no deferral at all, the shipped order of
                # operations inside axial_step is executed exactly
                sim.hist.add('asm_sched', tick=sim.tick, who=i)
                return orig_calc_asm(rx, asm, i, z, dz, dump_step)
            sim._pending.append((asm, i, z, dz, dump_step))
            n = len(rx.assemblies)
            if len(sim._pending) == n:
                order = sim.plan.order(sim.tick, n, 'asm')
                if order != list(range(n)):
                    sim.fire('sched.asm_order')
                pend = sim._pending
                sim._pending = []
                sim._in_flush = True
                try:
                    for k in order:
                        a, ii, zz, ddz, ds = pend[k]
                        sim.hist.add('asm_sched', tick=sim.tick, who=ii)
                        orig_calc_asm(rx, a, ii, zz, ddz, ds)
                finally:
                    sim._in_flush = False
            return asm

        def flush_regions(step):
            # region activations registered so far, in planned order.  Called
            # at the end of the tick (where the shipped axial_step performs
            # them) and before a gap update, so that a tree which activates
            # regions *before* the gap update keeps that order under the seam
            pr = sim._pending_regions
            sim._pending_regions = []
            if not pr:
                return
            order = sim.plan.order(step, len(pr), 'region')
            if order != list(range(len(pr))):
                sim.fire('sched.region_order')
            was = sim._in_flush
            sim._in_flush = True
            try:
                for k in order:
                    a, zz, tg, hg, ad = pr[k]
                    for m in sim.monitors:
                        m.on_region_before(sim, a, zz, tg, hg, ad)
                    orig_update_region(a, zz, tg, hg, ad)
                    sim.hist.add('region_change', tick=step, who=a.id,
                                 to=a.active_region_idx)
                    for m in sim.monitors:
                        m.on_region_after(sim, a, zz, tg, hg, ad)
            finally:
                sim._in_flush = was

        def axial_step(rx, z, dz, step, verbose=False):
            sim.tick = step
            sim.reactor = rx
            if sim.stop_tick is not None and step > sim.stop_tick:
                raise StopSweep()
            if sim.plan.crash_tick is not None \
                    and step == sim.plan.crash_tick:
                sim.fire('crash.tick')
                sim.hist.add('crash', tick=step)
                raise SimCrash(f'tick {step}')
            sim.hist.add('tick_begin', tick=step, z=float(z), dz=float(dz))
            for m in sim.monitors:
                m.on_tick_begin(sim, rx, z, dz, step)
            sim._pending = []
            sim._pending_regions = []
            orig_axial_step(rx, z, dz, step, verbose)
            assert not sim._pending, 'assembly scheduler left work behind'
            flush_regions(step)
            if sim.record_state:
                sim.state_log.append(
                    [asm_state_digest(a) for a in rx.assemblies]
                    + [sha_arrays(rx.core.coolant_gap_temp)])
            for m in sim.monitors:
                m.on_tick_end(sim, rx, z, dz, step)

        def asm_calc(asm, dz, t_gap, h_gap, z=None, adiabatic=False,
                     ebal=False):
            rx = sim.reactor
            for m in sim.monitors:
                m.on_asm_before(sim, rx, asm, dz, t_gap, h_gap, adiabatic)
            orig_asm_calc(asm, dz, t_gap, h_gap, z=z, adiabatic=adiabatic,
                          ebal=ebal)
            sim.hist.add('asm_update', tick=sim.tick, who=asm.id,
                         sha=sha_arrays(asm.temp_coolant))
            for m in sim.monitors:
                m.on_asm_after(sim, rx, asm, dz, t_gap, h_gap, adiabatic)

        def update_region(asm, z, t_gap, h_gap, adiabatic=False):
            if sim._in_flush or sim.reactor is None:
                return orig_update_region(asm, z, t_gap, h_gap, adiabatic)
            if sim.plan.region_default == 'identity':
                for m in sim.monitors:
                    m.on_region_before(sim, asm, z, t_gap, h_gap, adiabatic)
                orig_update_region(asm, z, t_gap, h_gap, adiabatic)
                sim.hist.add('region_change', tick=sim.tick, who=asm.id,
                             to=asm.active_region_idx)
                for m in sim.monitors:
                    m.on_region_after(sim, asm, z, t_gap, h_gap, adiabatic)
                return
            sim._pending_regions.append(
                (asm, z, np.array(t_gap, copy=True),
                 np.array(h_gap, copy=True), adiabatic))

        def gap(core, dz, t_duct):
            if sim._pending_regions:
                sim.probe('sched.region_before_gap')
                flush_regions(sim.tick)
            for m in sim.monitors:
                m.on_gap_before(sim, core, dz, t_duct)
            orig_gap(core, dz, t_duct)
            sim.hist.add('gap_update', tick=sim.tick,
                         sha=sha_arrays(core.coolant_gap_temp))
            for m in sim.monitors:
                m.on_gap_after(sim, core, dz, t_duct)

        def log(obj, level, message, indent=None):
            lv = str(level).lower()
            if lv in ('error', 'critical', 'warning'):
                sim.hist.add('verdict', level=lv,
                             msg=_SCRATCH.sub('<scratch>',
                                              str(message))[:120])
            return orig_log(obj, level, message, indent)

        def mt_update(tr, mat):
            orig_mt_update(tr, mat)
            if sim.tick in sim.plan.force_update:
                if not tr.recalculate_params:
                    sim.fire('cache.force_update')
                tr.recalculate_params = True
            if tr.recalculate_params:
                sim.probe('tracker.recalc')
            else:
                sim.probe('tracker.skipped')

        def init(rx, *a, **kw):
            orig_init(rx, *a, **kw)
            sim.reactor = rx
            sim.hist.add('build', n_asm=len(rx.assemblies),
                         n_tick=len(rx.dz))
            for m in sim.monitors:
                m.on_build(sim, rx)

        orig_zpts = R._setup_zpts

        def setup_zpts(rx):
            # deterministic stand-in for a hang: refuse meshes that cannot
            # be built within the plane budget (C05 decides those)
            if not (rx.req_dz > 0):
                raise BudgetExceeded('reactor.py:_setup_zpts (zero step: req_dz '
                                     'is not a positive number)')
            if rx.core_length / rx.req_dz > sim.max_planes:
                raise BudgetExceeded('reactor.py:_setup_zpts (plane cap of '
                                     'the harness, not a hang)')
            return orig_zpts(rx)

        from dassh import region as _region_mod
        DR = _region_mod.DASSH_Region
        orig_update_duct = DR._update_duct

        def update_duct(reg, temp):
            # observation only: which wall conductivity each duct solve used
            orig_update_duct(reg, temp)
            sim.klog.setdefault(id(reg), []).append(
                float(reg.duct.thermal_conductivity))

        orig_core_min_dz = _core_mod.calculate_min_dz

        def core_min_dz(core_obj, temp_lo, temp_hi):
            # observation only: the temperature range the gap limit is
            # evaluated for
            sim.gap_range = (float(temp_lo), float(temp_hi))
            return orig_core_min_dz(core_obj, temp_lo, temp_hi)

        self._patch(_core_mod, 'calculate_min_dz', core_min_dz)
        self._patch(DR, '_update_duct', update_duct)
        self._patch(R, '_setup_zpts', setup_zpts)
        self._patch(R, '_calculate_asm_temperatures', calc_asm)
        self._patch(R, 'axial_step', axial_step)
        self._patch(R, '__init__', init)
        self._patch(A, 'calculate', asm_calc)
        self._patch(A, 'update_region', update_region)
        self._patch(C, 'calculate_gap_temperatures', gap)
        self._patch(LC, 'log', log)
        self._patch(MT, 'update', mt_update)
        return self

    def _unpatch(self):
        for obj, name, old, had in reversed(self._saved):
            if had:
                setattr(obj, name, old)
            else:
                delattr(obj, name)

    def __exit__(self, et, ev, tb):
        self._unpatch()
        self._saved = []
        _ACTIVE[0] = None
        return False

    @contextlib.contextmanager
    def paused(self):
        """Temporarily remove every seam (the shipped methods run), e.g. to
        execute probe steps on copies of the reactor"""
        current = [(obj, name, obj.__dict__.get(name))
                   for obj, name, old, had in self._saved]
        self._unpatch()
        try:
            yield
        finally:
            for obj, name, cur in current:
                setattr(obj, name, cur)

    def finish(self, r):
        for m in self.monitors:
            m.on_finish(self, r)


# ----------------------------------------------------------------------
# state digests
# ----------------------------------------------------------------------

def asm_state_items(asm):
    """Everything a user can observe about one assembly right now"""
    reg = asm.active_region
    items = []
    for k in sorted(reg.temp.keys()):
        items.append(('temp.' + k, np.array(reg.temp[k], copy=True)))
    if hasattr(reg, 'pin_temps'):
        items.append(('pin_temps', np.array(reg.pin_temps[:, 3:], copy=True)))
    items.append(('dp', float(asm.pressure_drop)))
    for ri, rg in enumerate(asm.region):
        for k in sorted(rg._pressure_drop.keys()):
            items.append((f'dp.{ri}.{k}', float(rg._pressure_drop[k])))
    items.append(('peak.cool', tuple(float(x) for x in asm._peak['cool'])))
    items.append(('peak.duct', tuple(tuple(float(x) for x in d)
                                     for d in asm._peak['duct'])))
    if 'pin' in asm._peak:
        for k in sorted(asm._peak['pin']):
            p = asm._peak['pin'][k]
            items.append(('peak.pin.' + k,
                          (float(p[0]), tuple(float(x) for x in p[2][1:]))))
    for k in sorted(asm._power_delivered):
        items.append(('pd.' + k, float(asm._power_delivered[k])))
    items.append(('region', int(asm.active_region_idx)))
    # energy-balance tallies are reported in the output tables
    for ri, rg in enumerate(asm.region):
        items.append((f'ebal.{ri}.power', float(rg.ebal['power'])))
        items.append((f'ebal.{ri}.duct', np.array(rg.ebal['duct'], copy=True)))
    return items


def asm_state_digest(asm):
    m = hashlib.sha256()
    for k, v in asm_state_items(asm):
        m.update(k.encode())
        if isinstance(v, np.ndarray):
            m.update(v.tobytes())
        else:
            m.update(repr(v).encode())
    return m.hexdigest()[:20]


# ----------------------------------------------------------------------
# building and sweeping a world
# ----------------------------------------------------------------------

class Rejected(Exception):
    """World rejected by DASSH with a logged error (SystemExit)"""


class Crashed(Exception):
    """DASSH raised an unhandled exception (a C18 matter; other checks
    discard the world and count it)"""

    def __init__(self, exc):
        import traceback
        tb = traceback.extract_tb(exc.__traceback__)
        site = '?'
        for fr in reversed(tb):
            if '/dassh/' in fr.filename:
                site = f'{os.path.basename(fr.filename)}:{fr.name}'
                break
        self.site = site
        self.etype = type(exc).__name__
        Exception.__init__(self, f'{self.etype}@{site}: {exc}')


def build_input(spec, dirpath, name='input.txt'):
    from . import world
    path = world.render(spec, dirpath, name)
    return dassh.DASSH_Input(path)


def build_reactor(spec, dirpath, timestep=0, **kw):
    """DASSH_Input + Reactor from a spec; raises Rejected on SystemExit and
    Crashed on any other exception raised by DASSH"""
    try:
        inp = build_input(spec, dirpath)
        r = dassh.Reactor(inp, timestep=timestep, **kw)
    except SystemExit as e:
        raise Rejected(str(e))
    except (SimCrash, BudgetExceeded):
        raise
    except Exception as e:
        raise Crashed(e)
    return inp, r


class Exec(object):
    """Outcome of one execution of a world"""

    def __init__(self, status, S=None, r=None, inp=None, reason=''):
        self.status = status      # ok | discard
        self.S = S
        self.r = r
        self.inp = inp
        self.reason = reason


def execute(spec, dirpath, plan=None, monitors=(), max_ticks=4000,
            record_state=False, timestep=0, min_ticks=1, truncate=None,
            **kw):
    """Build and sweep one world under the given plan with the monitors
    attached.  Everything that is not a completed sweep is a discard with a
    reason; crashes of DASSH itself are C18 matters."""
    S = Sim(plan=plan, monitors=monitors, record_state=record_state)
    with S:
        try:
            inp, r = build_reactor(spec, dirpath, timestep=timestep, **kw)
        except Rejected:
            return Exec('discard', S, reason='rejected')
        except Crashed as c:
            return Exec('discard', S, reason=f'crash:{c.etype}@{c.site}')
        except BudgetExceeded:
            return Exec('discard', S, reason='mesh_budget')
        if len(r.dz) > max_ticks:
            if truncate is None:
                return Exec('discard', S, r, inp, reason='too_many_ticks')
            S.stop_tick = int(truncate)
        try:
            r.temperature_sweep()
        except StopSweep:
            S.truncated = True
            S.finish(r)
            return Exec('ok', S, r, inp)
        except SystemExit:
            return Exec('discard', S, r, inp, reason='sweep_exit')
        except (SimCrash, BudgetExceeded):
            raise
        except Exception as e:
            c = Crashed(e)
            return Exec('discard', S, r, inp,
                        reason=f'sweep_crash:{c.etype}@{c.site}')
        S.finish(r)
    return Exec('ok', S, r, inp)
