"""Environment seams: file system (SimFS), wall clock (SimClock) and the
process pool (SimPool).  All are installed at run time by rebinding names in
the imported dassh modules (and numpy.savetxt / multiprocessing.Pool for the
duration of the run); the shipped behaviour is untouched when no simulator is
active.

SimFS   every create/open/write/close/remove/makedirs/listdir/symlink of the
        dassh modules becomes a numbered I/O event that passes through to the
        real scratch directory.  The plan can fail the k-th event with
        ENOSPC/EIO, crash there (SimCrash: every open handle keeps only a
        seeded fraction of its unflushed bytes - torn last row), and permute
        os.listdir results.
SimClock time.time()/datetime.now() of dassh.reactor return a reading that is
        a function of the I/O/event sequence number plus planned jumps.
SimPool multiprocessing.Pool replacement: apply_async pickles the arguments
        at submission (as the real pool does), get() hands control to the
        simulator which executes the queued tasks in the planned (task,
        worker) order; a task that leaves through SystemExit kills its worker
        and its result is never delivered - get() then reports a deadlock
        instead of blocking for ever.
"""
import builtins
import datetime as _real_datetime
import errno
import io
import os as _real_os
import pickle
import sys
import time as _real_time
import types

import numpy as np

from .sim import SimCrash

_DASSH_FS_MODULES = ['reactor', 'assembly', 'orificing', '__main__', 'utils',
                     'power', 'read_input', 'material', 'hotspot', 'table',
                     'plot']


class SimDeadlock(BaseException):
    """The parent would block for ever (lost task)"""


class FsPlan(object):
    def __init__(self, faults=None, listdir='identity'):
        # faults: list of {'kind': 'crash.io'|'io.error', 'at': n,
        #                  'torn': f, 'errno': 'ENOSPC'|'EIO'}
        self.faults = {int(f['at']): dict(f) for f in (faults or [])}
        self.listdir = listdir       # identity | reverse | ('seeded', n)

    def to_json(self):
        return {'faults': list(self.faults.values()), 'listdir': self.listdir}


class _ProxyFile(object):
    """File object whose writes become durable only at flush/close"""

    def __init__(self, fs, path, mode, real):
        self._fs = fs
        self._path = path
        self._mode = mode
        self._real = real
        self._pending = []          # unflushed chunks
        self._binary = 'b' in mode
        self.closed = False
        self.name = path
        self.mode = mode

    # numpy.savetxt probes these
    def write(self, data):
        if self._binary and isinstance(data, str):
            raise TypeError("a bytes-like object is required, not 'str'")
        if not self._binary and not isinstance(data, str):
            raise TypeError('write() argument must be str, not bytes')
        self._fs._event('write', self._path, len(data))
        self._pending.append(data)
        return len(data)

    def writelines(self, lines):
        for ln in lines:
            self.write(ln)

    def flush(self):
        self._fs._event('flush', self._path)
        self._commit()

    def _commit(self, fraction=1.0):
        if not self._pending:
            return
        if self._binary:
            blob = b''.join(self._pending)
        else:
            blob = ''.join(self._pending)
        n = int(round(len(blob) * fraction))
        if n > 0:
            self._real.write(blob[:n])
        self._real.flush()
        self._pending = []

    def close(self):
        if self.closed:
            return
        self._fs._event('close', self._path)
        self._commit()
        self._real.close()
        self.closed = True
        self._fs._open.discard(self)

    def _crash(self, fraction):
        """process death: a prefix of the unflushed bytes reaches the disk"""
        try:
            self._commit(fraction)
            self._real.close()
        except Exception:
            pass
        self.closed = True

    def read(self, *a):
        return self._real.read(*a)

    def readline(self, *a):
        return self._real.readline(*a)

    def readlines(self, *a):
        return self._real.readlines(*a)

    def __iter__(self):
        return iter(self._real)

    def __next__(self):
        return next(self._real)

    def seek(self, *a):
        return self._real.seek(*a)

    def tell(self):
        return self._real.tell()

    def fileno(self):
        raise io.UnsupportedOperation('simulated file has no descriptor')

    def __enter__(self):
        return self

    def __exit__(self, *a):
        self.close()
        return False

    def __getattr__(self, name):
        return getattr(self._real, name)


class _OsProxy(object):
    def __init__(self, fs):
        self._fs = fs
        self.path = _real_os.path

    def __getattr__(self, name):
        return getattr(_real_os, name)

    def remove(self, p):
        self._fs._event('remove', p)
        return _real_os.remove(p)

    def makedirs(self, p, *a, **kw):
        self._fs._event('makedirs', p)
        return _real_os.makedirs(p, *a, **kw)

    def symlink(self, a, b):
        self._fs._event('symlink', b)
        return _real_os.symlink(a, b)

    def listdir(self, p='.'):
        self._fs._event('listdir', p)
        out = sorted(_real_os.listdir(p))
        mode = self._fs.plan.listdir
        if mode == 'reverse':
            out = out[::-1]
            self._fs.fire('fs.listdir_order')
        elif isinstance(mode, (list, tuple)) and mode[0] == 'seeded':
            from .rng import h64
            g = np.random.Generator(np.random.PCG64(
                h64('listdir', mode[1], self._fs.n_listdir)))
            out = [out[i] for i in g.permutation(len(out))]
            self._fs.fire('fs.listdir_order')
        self._fs.n_listdir += 1
        return out


class SimClock(object):
    """Deterministic wall clock: reading = base + seq * tick + jumps"""

    def __init__(self, fs, jumps=None, base=1.7e9):
        self.fs = fs
        self.base = base
        self.jumps = sorted((int(k), float(v)) for k, v in
                            (jumps or {}).items())
        self.reads = 0

    def now(self):
        self.reads += 1
        t = self.base + 1e-3 * self.fs.seq + self.reads * 1e-6
        for at, dv in self.jumps:
            if self.reads >= at:
                t += dv
                self.fs.fire('clock.wall_jump')
        return t


class SimFS(object):
    """Context manager installing the file-system, clock and pool seams"""

    def __init__(self, plan=None, clock_jumps=None, pool_plan=None,
                 log=None):
        self.plan = plan or FsPlan()
        self.seq = 0
        self.n_listdir = 0
        self.events = []
        self.fired = {}
        self._open = set()
        self._saved = []
        self.clock = SimClock(self, clock_jumps)
        self.pool_plan = pool_plan
        self.pools = []
        self.crashed = False

    def fire(self, k, n=1):
        self.fired[k] = self.fired.get(k, 0) + n

    # -- events ------------------------------------------------------------
    def _event(self, kind, path, n=0):
        self.seq += 1
        self.events.append((self.seq, kind, _real_os.path.basename(str(path))))
        f = self.plan.faults.get(self.seq)
        if f is not None:
            if f['kind'] == 'crash.io':
                self.fire('crash.io')
                self.crash(f.get('torn', 0.0))
                raise SimCrash(f'I/O event {self.seq} ({kind} {path})')
            if f['kind'] == 'io.error':
                self.fire('io.error')
                code = getattr(errno, f.get('errno', 'ENOSPC'))
                raise OSError(code, _real_os.strerror(code), str(path))

    def crash(self, torn=0.0):
        """kill the simulated process: torn unflushed data, handles gone"""
        self.crashed = True
        for fh in list(self._open):
            if fh._pending and 0.0 < torn < 1.0:
                self.fire('io.torn_write')
            fh._crash(torn)
        self._open.clear()

    def open(self, path, mode='r', *a, **kw):
        self._event('open', path)
        real = builtins.open(path, mode, *a, **kw)
        if any(c in mode for c in 'wax+'):
            fh = _ProxyFile(self, path, mode, real)
            self._open.add(fh)
            return fh
        return real

    # -- install -----------------------------------------------------------
    def _set(self, obj, name, val):
        had = name in obj.__dict__
        self._saved.append((obj, name, obj.__dict__.get(name), had))
        setattr(obj, name, val)

    def __enter__(self):
        import dassh
        import importlib
        import multiprocessing
        osp = _OsProxy(self)
        for m in _DASSH_FS_MODULES:
            try:
                mod = importlib.import_module('dassh.' + m)
            except Exception:
                continue
            self._set(mod, 'open', self.open)
            if hasattr(mod, 'os'):
                self._set(mod, 'os', osp)
        # numpy.savetxt with a path argument opens the file itself
        fs = self
        orig_savetxt = np.savetxt

        def savetxt(fname, X, *a, **kw):
            if isinstance(fname, (str, _real_os.PathLike)):
                with fs.open(_real_os.fspath(fname), 'w') as fh:
                    return orig_savetxt(fh, X, *a, **kw)
            return orig_savetxt(fname, X, *a, **kw)

        self._set(np, 'savetxt', savetxt)
        # wall clock of dassh.reactor
        import dassh.reactor as rx
        fake_time = types.SimpleNamespace(time=self.clock.now)

        class _FakeDT(object):
            @staticmethod
            def now():
                return _real_datetime.datetime.utcfromtimestamp(
                    fs.clock.now())

        fake_datetime = types.SimpleNamespace(datetime=_FakeDT)
        self._set(rx, 'time', fake_time)
        self._set(rx, 'datetime', fake_datetime)
        # process pool
        pp = self.pool_plan

        def Pool(processes=None, *a, **kw):
            p = SimPool(fs, processes, pp)
            fs.pools.append(p)
            return p

        self._set(multiprocessing, 'Pool', Pool)
        self._set(multiprocessing, 'cpu_count',
                  lambda: (pp or {}).get('cpu_count', 4))
        return self

    def __exit__(self, et, ev, tb):
        for fh in list(self._open):
            try:
                fh._crash(1.0 if et is None else 0.0)
            except Exception:
                pass
        self._open.clear()
        for obj, name, old, had in reversed(self._saved):
            if had:
                setattr(obj, name, old)
            else:
                try:
                    delattr(obj, name)
                except AttributeError:
                    pass
        self._saved = []
        return False


# ----------------------------------------------------------------------
# process pool
# ----------------------------------------------------------------------

class _Async(object):
    def __init__(self, pool, tid):
        self.pool = pool
        self.tid = tid
        self.done = False
        self.value = None
        self.exc = None

    def get(self, timeout=None):
        self.pool._run_until(self)
        if self.exc is not None:
            raise self.exc
        return self.value

    def ready(self):
        return self.done

    def wait(self, timeout=None):
        self.pool._run_until(self)


class SimPool(object):
    """In-process model of multiprocessing.Pool with a planned schedule.

    plan: {'order': [task ids in execution order] or 'fifo'|'lifo'|seeded,
           'assign': {task id -> worker id}, 'cpu_count': n}
    Each task runs on a fresh unpickled copy of its pickled arguments (a
    worker never shares objects with the parent).  Logging handlers and
    module globals are shared with the parent (forked workers inherit them);
    DASSH tasks communicate only through their own directories.
    """

    def __init__(self, fs, processes, plan):
        self.fs = fs
        self.n = int(processes) if processes else 1
        self.plan = dict(plan or {})
        self.tasks = []          # (tid, func, pickled args, async)
        self.dead_workers = set()
        self.lost = set()
        self.log = []            # (tid, worker)
        self.worker_tasks = {}
        self.worker_cwd = {}
        self.closed = False

    def apply_async(self, func, args=(), kwds=None):
        tid = len(self.tasks)
        blob = pickle.dumps((args, kwds or {}))
        res = _Async(self, tid)
        self.tasks.append([tid, func, blob, res, False])
        return res

    def _order(self):
        pending = [t for t in self.tasks if not t[4]]
        mode = self.plan.get('order', 'fifo')
        ids = [t[0] for t in pending]
        if mode == 'lifo':
            ids = ids[::-1]
        elif isinstance(mode, (list, tuple)) and mode and mode[0] == 'seeded':
            from .rng import h64
            g = np.random.Generator(np.random.PCG64(
                h64('pool', mode[1], len(self.tasks))))
            ids = [ids[i] for i in g.permutation(len(ids))]
        elif isinstance(mode, (list, tuple)):
            ids = [i for i in mode if i in ids] + \
                [i for i in ids if i not in mode]
        if ids != [t[0] for t in pending]:
            self.fs.fire('sched.pool')
        return ids

    def _worker_for(self, tid, k):
        a = self.plan.get('assign') or {}
        w = a.get(str(tid), a.get(tid))
        if w is None:
            w = k % self.n
        return int(w) % self.n

    def _run_until(self, target):
        """Execute queued tasks in the planned order until `target` is done;
        a real pool runs them concurrently, so everything submitted before
        the first get() may already have run in any order"""
        if target.done:
            return
        order = self._order()
        for k, tid in enumerate(order):
            t = self.tasks[tid]
            if t[4]:
                continue
            t[4] = True
            w = self._worker_for(tid, k)
            self.log.append((tid, w))
            self.worker_tasks.setdefault(w, []).append(tid)
            if len(self.worker_tasks[w]) == 2:
                self.fs.fire('pool.worker_reused')
            args, kwds = pickle.loads(t[2])
            # process-level state a forked worker owns: its working
            # directory (what a task leaves behind is seen by the worker's
            # next task and never by the parent)
            parent_cwd = _real_os.getcwd()
            if w in self.worker_cwd:
                try:
                    _real_os.chdir(self.worker_cwd[w])
                except OSError:
                    pass
            try:
                try:
                    val = t[1](*args, **kwds)
                finally:
                    try:
                        self.worker_cwd[w] = _real_os.getcwd()
                    except OSError:
                        pass
                    if self.worker_cwd.get(w) != parent_cwd:
                        self.fs.fire('worker.cwd_changed')
                    _real_os.chdir(parent_cwd)
            except SystemExit:
                # the worker process dies; the pool never delivers a result
                self.fs.fire('worker.exit')
                self.lost.add(tid)
                continue
            except SimCrash:
                raise
            except Exception as e:      # delivered to the parent by get()
                t[3].exc = e
                t[3].done = True
                continue
            try:
                val = pickle.loads(pickle.dumps(val))
            except Exception:
                val = None
            t[3].value = val
            t[3].done = True
        if not target.done:
            raise SimDeadlock(f'task {target.tid} lost: its worker exited; '
                              f'the parent would block for ever in get()')

    def terminate(self):
        self.closed = True

    def close(self):
        self.closed = True

    def join(self):
        pass

    def __enter__(self):
        return self

    def __exit__(self, *a):
        self.terminate()
        return False
