"""Shared driver for the properties that are monitors over one sweep
(C01, C02, C03, C14, C15): world + tick placement + schedule -> execution
under the simulator with the property's monitors attached."""
import copy
import numpy as np

from .. import world, sim, rng
from . import Prop, spec_shrinks


def event_heights(spec):
    """Heights of everything a tick boundary can coincide with"""
    L = spec['core']['length']
    ev = {'region': set(), 'power': set(), 'grid': set()}
    for t in spec['types']:
        for r in t.get('axial_regions', []):
            for z in (r['z_lo'], r['z_hi']):
                if 0.0 < z < L:
                    ev['region'].add(z)
        if t.get('spacer'):
            for z in t['spacer']['axial_positions']:
                ev['grid'].add(z)
    for pw in spec['power']:
        for pa in pw.values():
            for z in pa['zb'][1:-1]:
                ev['power'].add(z)
    return {k: sorted(v) for k, v in ev.items()}


def place_ticks(g, spec, kinds=('region', 'power', 'grid'), p_on=0.5,
                n_jitter=3):
    """Adversarial axial_plane requests: exactly on an event, a hair before
    and after it, and seeded jitter.  Returns (planes, fired)"""
    L = spec['core']['length']
    ev = event_heights(spec)
    planes = []
    fired = {}
    for kind in kinds:
        for z in ev.get(kind, []):
            u = g.random()
            if u < p_on:
                planes.append(z)
                fired['clock.tick_on_event'] = \
                    fired.get('clock.tick_on_event', 0) + 1
            elif u < p_on + 0.35:
                off = rng.choice(g, [1e-13, 1e-11, 1e-9, 1e-7, 1e-5])
                sgn = rng.choice(g, [-1.0, 1.0])
                zz = z + sgn * off
                if 0.0 < zz < L:
                    planes.append(zz)
                    fired['clock.tick_near_event'] = \
                        fired.get('clock.tick_near_event', 0) + 1
    for _ in range(int(g.integers(0, n_jitter + 1))):
        planes.append(float(g.uniform(0.02, 0.98)) * L)
        fired['clock.tick_jitter'] = fired.get('clock.tick_jitter', 0) + 1
    return sorted(set(float(z) for z in planes)), fired


class SweepProp(Prop):
    """make_case draws (spec, plan); run_case executes under monitors"""
    profile = {}
    profile_thorough = {}
    tick_kinds = ('region', 'power', 'grid')
    use_schedule = True
    force_update_prob = 0.3
    max_ticks = 3000
    truncate = None       # sweep only the first N ticks of longer worlds

    variants = []          # [(probability, profile overrides)] swarm focus

    def make_profile(self, tier, seed=None):
        p = dict(self.profile)
        if tier == 'thorough':
            p.update(self.profile_thorough)
        if seed is not None and self.variants:
            g = rng.Streams(seed)('variant')
            u = g.random()
            acc = 0.0
            for prob, ov in self.variants:
                acc += prob
                if u < acc:
                    p.update(ov)
                    break
        return p

    def make_case(self, seed, tier):
        spec = world.gen(seed, self.make_profile(tier, seed))
        S = rng.Streams(seed)
        g = S('ticks')
        planes, fired = place_ticks(g, spec, self.tick_kinds)
        spec['axial_plane'] = planes
        gs = S('sched')
        plan = {'perm_default': 'identity', 'region_default': 'identity',
                'force_update': []}
        if self.use_schedule and rng.chance(gs, 0.7):
            sd = ['seeded', int(gs.integers(0, 2**31))]
            plan['perm_default'] = sd
            plan['region_default'] = sd
        if rng.chance(gs, self.force_update_prob):
            plan['force_update'] = sorted(set(
                int(x) for x in gs.integers(1, 400, size=12)))
        case = {'property': self.id, 'seed': int(seed), 'spec': spec,
                'plan': plan, 'tick_fired': fired}
        self.extend_case(case, S, tier)
        return case

    def extend_case(self, case, S, tier):
        pass

    def monitors(self, case, spec):
        raise NotImplementedError

    def base_result(self, case, e):
        spec = case['spec']
        res = {'violations': [], 'probes': {}, 'fired': {},
               'features': world.features(spec), 'executions': 1}
        return res

    def run_case(self, case):
        sim.quiet_logging()
        spec = case['spec']
        plan = sim.Plan.from_json(case.get('plan'))
        mons = self.monitors(case, spec)
        with sim.scratch_dir() as d:
            e = sim.execute(spec, d, plan=plan, monitors=mons,
                            max_ticks=self.max_ticks, truncate=self.truncate)
            if e.status != 'ok':
                return {'status': 'discard', 'reason': e.reason,
                        'violations': []}
            res = self.base_result(case, e)
            S, r = e.S, e.r
            res['ticks'] = len(r.dz) if not S.truncated else S.stop_tick
            res['length_m'] = float(r.core_length) if not S.truncated \
                else float(r.z[S.stop_tick])
            res['probes'] = dict(S.probes)
            if S.truncated:
                res['probes']['sweep.truncated'] = 1
            res['fired'] = dict(S.fired)
            for k, v in (case.get('tick_fired') or {}).items():
                res['fired'][k] = res['fired'].get(k, 0) + v
            res['violations'] = [v.to_json() for v in S.violations]
            res['hist_digest'] = S.hist.digest()
            res['sched_digest'] = rng.h64(
                repr(case.get('plan')), tuple(spec.get('axial_plane', [])))
            res['nontrivial'] = len(r.dz) >= 2
            res['sample'] = {
                'seed': case['seed'], 'n_asm': len(r.assemblies),
                'ticks': len(r.dz),
                'gap_model': spec['core']['gap_model'],
                'coolant': spec['core']['coolant_material'],
                'types': [(t['num_rings'], len(t['duct_ftf']) // 2,
                           [a['model'] for a in t.get('axial_regions', [])])
                          for t in spec['types']],
                'axial_plane': spec.get('axial_plane', [])[:6],
                'plan': case.get('plan')}
            self.after(case, e, res, d)
        return res

    def after(self, case, e, res, d):
        """extra executions (twins) and checks on the finished reactor"""
        pass

    def shrink_candidates(self, case):
        pl = case.get('plan') or {}
        if pl.get('perm_default') != 'identity':
            c = copy.deepcopy(case)
            c['plan']['perm_default'] = 'identity'
            c['plan']['region_default'] = 'identity'
            yield c
        if pl.get('force_update'):
            c = copy.deepcopy(case)
            c['plan']['force_update'] = []
            yield c
        for spec in spec_shrinks(case['spec']):
            c = copy.deepcopy(case)
            c['spec'] = spec
            yield c
