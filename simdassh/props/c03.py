"""C03 - power deposited over the sweep equals the power assigned."""
import copy
import numpy as np

from .. import sim, rng, oracles, world
from .sweep import SweepProp


class C03(SweepProp):
    id = 'C03'
    level = 'exploration'
    rule = ('one case = one generated user-power world (1..4 axial power cells '
            'aligned or not with the bundle bounds, polynomial order 0..2, any '
            'subset of pin/duct/coolant components, zero-power cells, '
            'normalisation and scaling on/off) swept on a seeded tick schedule '
            'with planes on/next to power-cell, bundle and region bounds; '
            'reference = analytic integral of the CSV polynomials computed from '
            'the spec; constant worlds additionally run a scaling twin. '
            'non-trivial = completed sweep; distinct = distinct (world class, '
            'tick plan digest)')
    stub = ['tick placement via axial_plane / axial_mesh_size',
            'per-tick assembly-update order']
    assumptions = ['user-power CSV path only: the VARPOW/binary-flux path '
                   'cannot run here (flux files are emptied)']
    profile = {'misalign_prob': 0.35, 'axial_region_prob': 0.55,
               'total_power_prob': 0.4, 'scaling_prob': 0.4,
               'n_ring_core': [1, 1, 2, 2],
               'length': (0.08, 0.3), 'const_prob': 0.6,
               'lowfi_prob': 0.15,
               'gap_models': ['none', 'flow', 'no_flow', 'duct_average']}
    tick_kinds = ('region', 'power')

    def budget(self, tier):
        if tier == 'quick':
            return {'runs': 420, 'wall_s': 70, 'per_run_timeout': 200,
                    'shrink_s': 60,
                    'require_probes': ['c03.delivered_checked',
                                       'c03.misaligned_world',
                                       'c03.scaling_twin',
                                       'c03.second_construction',
                                       'c03.enthalpy_rise_checked'],
                    'min_evaluated': 80}
        return {'runs': 40000, 'wall_s': 1000, 'per_run_timeout': 600,
                'shrink_s': 300,
                'require_probes': ['c03.delivered_checked',
                                   'c03.misaligned_world',
                                   'c03.scaling_twin',
                                   'c03.second_construction'],
                'min_evaluated': 1500}

    def monitors(self, case, spec):
        return [oracles.PowerC03(spec, 0)]

    def extend_case(self, case, S, tier):
        g = S('twin')
        case['scale_twin'] = float(world._r(g.uniform(0.1, 3.0), 4)) \
            if (case['spec'].get('const') and rng.chance(g, 0.5)) else None
        case['second_construction'] = bool(rng.chance(S('second'), 0.35))

    def _second_construction(self, case, e, res):
        """History dimension: a second model built in the same process from
        the same parsed input and the same (unchanged) power files - what a
        multi-time-point run, the orificing loop or an API user does - must
        deliver the assigned power as well."""
        import dassh
        spec = case['spec']
        plan = sim.Plan.from_json(case.get('plan'))
        S2 = sim.Sim(plan=plan, monitors=[oracles.PowerC03(spec, 0)])
        try:
            with S2:
                r2 = dassh.Reactor(e.inp)
                if len(r2.dz) > self.max_ticks:
                    res['probes']['c03.second_construction_skipped'] = 1
                    return
                r2.temperature_sweep()
                S2.finish(r2)
        except (SystemExit, Exception) as err:  # C16/C18 matters, not C03
            res['probes']['c03.second_construction_failed'] = 1
            res.setdefault('notes', []).append(
                f'second construction: {type(err).__name__}')
            return
        res['executions'] += 1
        res['probes']['c03.second_construction'] = 1
        for v in S2.violations:
            j = v.to_json()
            j['features'] = sorted(set(j.get('features', []))
                                   | {'second_construction'})
            j['site'] = 'second construction: ' + j['site']
            res['violations'].append(j)

    def after(self, case, e, res, d):
        spec = case['spec']
        L = spec['core']['length']
        types = {t['name']: t for t in spec['types']}
        for k, p in enumerate(spec['positions']):
            if not p:
                continue
            zlo, zhi = world.rod_bounds(types[p['type']], L)
            pa = spec['power'][0][str(k + 1)]
            if any(0.0 < b < L and b not in pa['zb'] for b in (zlo, zhi)) \
                    and not types[p['type']].get('lowfi'):
                res['probes']['c03.misaligned_world'] = 1
        if case.get('second_construction') and not res['violations']:
            self._second_construction(case, e, res)
        s = case.get('scale_twin')
        if not s or res['violations']:
            return
        # scaling twin: constant world, every temperature rise scales by s
        s2 = copy.deepcopy(spec)
        s2['scaling'] = world._r(spec.get('scaling', 1.0) * s, 8)
        s_eff = s2['scaling'] / spec.get('scaling', 1.0)
        # keep flows identical: boundary conditions by flow rate as solved
        for k, p in enumerate(s2['positions']):
            if p:
                a = [a for a in e.r.assemblies if a.id == k][0]
                p['bc'] = 'FLOWRATE'
                p['flow'] = float(a.flow_rate)
        s1 = copy.deepcopy(s2)
        s1['scaling'] = spec.get('scaling', 1.0)
        s1['setup'] = dict(s1['setup'])
        s1['setup']['axial_mesh_size'] = float(e.r.req_dz)
        s2['setup'] = dict(s1['setup'])
        plan = sim.Plan.from_json(case.get('plan'))
        with sim.scratch_dir() as d1:
            e1 = sim.execute(s1, d1, plan=plan, max_ticks=self.max_ticks)
        with sim.scratch_dir() as d2:
            e2 = sim.execute(s2, d2, plan=plan, max_ticks=self.max_ticks)
        if e1.status != 'ok' or e2.status != 'ok' or \
                not np.array_equal(e1.r.z, e2.r.z):
            res['probes']['c03.scaling_twin_incomparable'] = 1
            return
        res['executions'] += 2
        res['probes']['c03.scaling_twin'] = 1
        Tin = float(e1.r.inlet_temp)
        for a1, a2 in zip(e1.r.assemblies, e2.r.assemblies):
            for key in ('coolant_int', 'coolant_byp', 'duct_mw'):
                if key not in a1.active_region.temp:
                    continue
                r1 = a1.active_region.temp[key] - Tin
                r2 = a2.active_region.temp[key] - Tin
                err = np.max(np.abs(r2 - s_eff * r1))
                ref = max(float(np.max(np.abs(r1))) * s_eff, 1e-300)
                if err > 1e-9 * ref + 1e-10:
                    res['violations'].append(sim.Violation(
                        'power.scaling_twin', f'asm{a1.id} {key}',
                        f'temperature rise does not scale by s={s_eff!r}: '
                        f'max deviation {err!r} K of {ref!r} K',
                        {'scaling'}).to_json())
                    return


PROP = C03()
