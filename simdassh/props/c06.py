"""C06 - assemblies interact only through duct-wall heat transfer.

One world is executed (i) with the identity schedule, (ii) under k seeded
schedules (fresh permutation of the per-assembly updates every tick, region
activations permuted), (iii) with the assignment list re-ordered in the input,
(iv) in adiabatic worlds assembly by assembly as a stand-alone twin on the
same ticks.  Oracle: bitwise equality of every observable of every assembly
at every tick.
"""
import copy
import numpy as np

from .. import world, sim, rng
from . import Prop, spec_shrinks


PROFILE = {
    'n_ring_core': [2, 2, 2, 3],
    'hole_prob': 0.3,
    'n_types': [1, 1, 2, 2, 3],
    'const_prob': 0.3,
    'gap_models': ['none', 'none', 'flow', 'no_flow', 'duct_average'],
    'pinmodel_prob': 0.25,
    'total_power_prob': 0.0,
    'lowfi_prob': 0.2,
    'axial_region_prob': 0.4,
    'length': (0.08, 0.3),
    'low_flow_prob': 0.05,
    'vel': (0.5, 8.0),
    'tol_choices': [0.0, 1e-4, 1e-3, 1e-2, 5e-2],
}


def _final_compare(tag, ref_log, log, sim_obj_features=()):
    """first (tick, slot) where two state logs differ"""
    n = min(len(ref_log), len(log))
    for t in range(n):
        a, b = ref_log[t], log[t]
        for k in range(min(len(a), len(b))):
            if a[k] != b[k]:
                return (t + 1, k)
    if len(ref_log) != len(log):
        return (n, -1)
    return None


def execute(spec, plan, d, max_ticks=4000):
    e = sim.execute(spec, d, plan=plan, record_state=True,
                    max_ticks=max_ticks)
    return e


def twin_spec(spec, k, r_full):
    """stand-alone one-position world for assembly index k of the full core,
    marching on the planes of the full run"""
    s = copy.deepcopy(spec)
    p = copy.deepcopy(spec['positions'][k])
    p['ring'], p['pos'] = 1, 1
    s['positions'] = [p]
    s['types'] = [t for t in s['types'] if t['name'] == p['type']]
    s['power'] = [{'1': copy.deepcopy(pw[str(k + 1)])} for pw in spec['power']]
    s['setup'] = dict(s['setup'])
    s['setup']['axial_mesh_size'] = float(r_full.req_dz)
    s['axial_plane'] = [float(z) for z in r_full.axial_bnds]
    s['assign_order'] = None
    return s


class C06(Prop):
    id = 'C06'
    level = 'exploration'
    rule = ('one case = one generated multi-assembly world (types, clones per '
            'type, gap model, coolant, tolerances, pin models drawn from the '
            'seed) executed under an identity schedule, k seeded per-tick '
            'permutation schedules of the assembly updates and region '
            'activations, a re-ordered assignment list and (adiabatic worlds) '
            'stand-alone twins; a case is non-trivial when the core holds >= 2 '
            'assemblies, >= 1 non-identity permutation was applied and the '
            'sweep completed; distinct = distinct (world class, schedule '
            'digest)')
    stub = ['per-tick assembly-update order (seeded permutation instead of '
            'list order)', 'region-activation order']
    assumptions = [
        'power comes from user CSV files only (VARPOW/CCCC unavailable)',
        'permuting the N calls of Reactor._calculate_asm_temperatures inside '
        'one axial step is a legal schedule: nothing else executes between '
        'them in Reactor.axial_step and the gap update runs after all of them',
        'stand-alone twins are compared only in adiabatic worlds without '
        'total-power renormalisation (the property states it for the '
        'adiabatic option)']

    def budget(self, tier):
        if tier == 'quick':
            return {'runs': 150, 'wall_s': 75, 'per_run_timeout': 200,
                    'shrink_s': 90, 'require_fired': ['sched.asm_order'],
                    'require_probes': ['twin.compared', 'clones.same_type',
                                       'split.compared'],
                    'min_evaluated': 40}
        return {'runs': 12000, 'wall_s': 1000, 'per_run_timeout': 600,
                'shrink_s': 300, 'require_fired': ['sched.asm_order',
                                                  'sched.region_order'],
                'require_probes': ['twin.compared', 'clones.same_type',
                                   'tracker.skipped'],
                'min_evaluated': 150}

    def make_case(self, seed, tier):
        prof = dict(PROFILE)
        if tier == 'thorough':
            prof['rings'] = [2, 2, 3, 3, 4, 5]
            prof['n_duct'] = [1, 1, 2, 3]
        spec = world.gen(seed, prof)
        S = rng.Streams(seed)
        g = S('sched')
        k = 2 if tier == 'quick' else 3
        scheds = [['seeded', int(g.integers(0, 2**31))] for _ in range(k)]
        scheds[0] = 'reverse' if rng.chance(g, 0.3) else scheds[0]
        n = len(spec['positions'])
        order = [int(x) for x in g.permutation(n)]
        ntw = 2 if tier == 'quick' else 4
        present = [i for i, p in enumerate(spec['positions']) if p]
        tw = [int(x) for x in g.permutation(len(present))[:ntw]]
        return {'property': 'C06', 'seed': int(seed), 'spec': spec,
                'plan': {'schedules': scheds, 'assign_order': order,
                         'twins': [present[i] for i in tw]}}

    def run_case(self, case):
        sim.quiet_logging()
        spec = case['spec']
        plan = case['plan']
        res = {'violations': [], 'probes': {}, 'fired': {},
               'features': world.features(spec), 'executions': 0}

        def bump(dst, src):
            for k, v in src.items():
                dst[k] = dst.get(k, 0) + v

        with sim.scratch_dir() as d:
            e0 = execute(spec, sim.Plan(), d)
        if e0.status != 'ok':
            return {'status': 'discard', 'reason': e0.reason,
                    'violations': []}
        S0, r0 = e0.S, e0.r
        res['executions'] += 1
        res['ticks'] = len(r0.dz)
        res['length_m'] = float(r0.core_length)
        bump(res['probes'], S0.probes)
        n = len(r0.assemblies)
        names = [a.name for a in r0.assemblies]
        if len(set(names)) < len(names):
            res['probes']['clones.same_type'] = 1
        res['nontrivial'] = n >= 2
        hist = [S0.hist.digest()]
        sched_sigs = []
        ids = [a.id for a in r0.assemblies]

        def report(oracle, where, detail, extra=()):
            feats = set(extra)
            feats.add('const' if spec.get('const') else 'tdep')
            res['violations'].append(sim.Violation(
                oracle, where, detail, feats).to_json())

        # (ii) permuted schedules
        for sc in plan.get('schedules', []):
            pd = tuple(sc) if isinstance(sc, list) else sc
            pl = sim.Plan(perm_default=pd, region_default=pd,
                          perms=plan.get('perms'))
            with sim.scratch_dir() as d:
                e1 = execute(spec, pl, d)
            res['executions'] += 1
            sched_sigs.append(repr(sc))
            if e1.status != 'ok':
                report('sched.outcome', 'whole run',
                       f'identity schedule completed but schedule {sc} '
                       f'ended with {e1.reason}', ['schedule'])
                break
            S1 = e1.S
            bump(res['fired'], S1.fired)
            diff = _final_compare('sched', S0.state_log, S1.state_log)
            if diff is not None:
                t, k = diff
                who = 'gap' if k == n else f'asm{ids[k] if 0 <= k < n else k}'
                report('sched.bitwise', f'tick {t} {who}',
                       f'state under schedule {sc} differs from identity '
                       f'schedule', ['schedule'])
                break
        # (iii) assignment list re-ordered in the input
        if plan.get('assign_order') and not res['violations']:
            s2 = copy.deepcopy(spec)
            s2['assign_order'] = plan['assign_order']
            with sim.scratch_dir() as d:
                e2 = execute(s2, sim.Plan(), d)
            res['executions'] += 1
            res['fired']['input.assign_order'] = \
                res['fired'].get('input.assign_order', 0) + 1
            if e2.status != 'ok':
                report('order.outcome', 'whole run',
                       f're-ordered assignment list ended with {e2.reason}',
                       ['assign_order'])
            else:
                diff = _final_compare('order', S0.state_log, e2.S.state_log)
                if diff is not None:
                    report('order.bitwise',
                           f'tick {diff[0]} slot {diff[1]}',
                           'state with re-ordered assignment list differs',
                           ['assign_order'])
        # (iv) stand-alone twins (adiabatic worlds)
        if spec['core']['gap_model'] == 'none' and not res['violations'] \
                and spec.get('total_power') is None:
            for k in plan.get('twins', []):
                if k >= len(spec['positions']) or spec['positions'][k] is None:
                    continue
                ai = ids.index(k)
                ts = twin_spec(spec, k, r0)
                with sim.scratch_dir() as d:
                    e3 = execute(ts, sim.Plan(), d)
                res['executions'] += 1
                if e3.status != 'ok':
                    res['probes']['twin.' + e3.reason.split(':')[0]] = \
                        res['probes'].get(
                            'twin.' + e3.reason.split(':')[0], 0) + 1
                    continue
                r3, S3 = e3.r, e3.S
                if not (np.array_equal(r3.z, r0.z)
                        and np.array_equal(r3.dz, r0.dz)):
                    res['probes']['twin.mesh_mismatch'] = \
                        res['probes'].get('twin.mesh_mismatch', 0) + 1
                    continue
                res['probes']['twin.compared'] = \
                    res['probes'].get('twin.compared', 0) + 1
                for t in range(len(S0.state_log)):
                    if S0.state_log[t][ai] != S3.state_log[t][0]:
                        report('twin.bitwise', f'tick {t + 1} asm{k}',
                               'assembly in the core differs from its '
                               'stand-alone twin on the same planes',
                               ['twin'])
                        break
                if res['violations']:
                    break
        # (v) type-split twin: the same world with one private copy of the
        # type definition per assembly - clones of a shared definition must
        # behave exactly like assemblies built from their own definition
        if not res['violations'] and len(set(names)) < len(names):
            s5 = copy.deepcopy(spec)
            types = {t['name']: t for t in spec['types']}
            new_types = []
            for k, p in enumerate(s5['positions']):
                if not p:
                    continue
                t = copy.deepcopy(types[p['type']])
                t['name'] = f'{p["type"]}x{k}'
                p['type'] = t['name']
                new_types.append(t)
            s5['types'] = new_types
            with sim.scratch_dir() as d:
                e5 = execute(s5, sim.Plan(), d)
            res['executions'] += 1
            if e5.status != 'ok':
                res['probes']['split.' + e5.reason.split(':')[0]] = 1
            elif not (np.array_equal(e5.r.z, r0.z)
                      and len(e5.S.state_log) == len(S0.state_log)):
                res['probes']['split.mesh_mismatch'] = 1
            else:
                res['probes']['split.compared'] = 1
                diff = _final_compare('split', S0.state_log, e5.S.state_log)
                if diff is not None:
                    t, k = diff
                    who = 'gap' if k == n else \
                        f'asm{ids[k] if 0 <= k < n else k}'
                    report('split.bitwise', f'tick {t} {who}',
                           'state differs when every assembly gets a private '
                           'copy of its type definition', ['type_split'])
        res['sched_digest'] = rng.h64(*sched_sigs, plan.get('assign_order')) \
            if n >= 2 else None
        res['hist_digest'] = hist[0]
        res['sample'] = {'seed': case['seed'], 'n_asm': n,
                         'types': names, 'gap_model': spec['core']['gap_model'],
                         'coolant': spec['core']['coolant_material'],
                         'ticks': len(r0.dz),
                         'schedules': plan.get('schedules')}
        return res

    def shrink_candidates(self, case):
        # schedule first: fewer schedules / fewer twins
        pl = case['plan']
        if len(pl.get('schedules', [])) > 1:
            for k in range(len(pl['schedules'])):
                c = copy.deepcopy(case)
                c['plan']['schedules'] = [pl['schedules'][k]]
                yield c
        if pl.get('schedules') and pl['schedules'][0] != 'reverse':
            c = copy.deepcopy(case)
            c['plan']['schedules'] = ['reverse']
            yield c
        if pl.get('twins') and len(pl['twins']) > 1:
            for k in pl['twins']:
                c = copy.deepcopy(case)
                c['plan']['twins'] = [k]
                yield c
        for spec in spec_shrinks(case['spec']):
            c = copy.deepcopy(case)
            c['spec'] = spec
            present = [i for i, p in enumerate(spec['positions']) if p]
            c['plan']['twins'] = [k for k in c['plan'].get('twins', [])
                                  if k in present] or present[:1]
            c['plan']['assign_order'] = [
                i for i in c['plan'].get('assign_order', [])
                if i < len(spec['positions'])]
            yield c


PROP = C06()
