"""C04 - the selected axial step keeps the explicit march positive."""
import copy
import numpy as np

from .. import world, sim, rng, oracles
from .sweep import SweepProp


KINDS = ['auto', 'auto', 'auto', 'gap', 'interior', 'edge', 'corner',
         'byp_edge', 'byp_corner', 'node']


class C04(SweepProp):
    id = 'C04'
    level = 'exploration'
    rule = ('one case = one generated world (all gap models and gap flow '
            'fractions down to the step-limiting range, low flows where edge, '
            'corner, bypass or low-fidelity cells limit the step, stagnant '
            'bypass, conv_approx, convection factors, zero-power worlds and '
            'core-wide unheated zones) swept with max-principle invariants '
            'checked every tick and 5-20 perturbation probes: at a seeded tick '
            'the reactor is duplicated, one cell of the copy gets +delta, both '
            'copies execute the real axial_step, and the difference is the '
            'column of the update operator (>= 0, <= 1, conservative where all '
            'heat carriers flow). Probes are steered to the step-limiting cell '
            'type. non-trivial = completed sweep with >= 1 probe; distinct = '
            'distinct (world class, probe plan digest)')
    stub = ['state perturbation on a pickled copy of the reactor (the copies '
            'execute the shipped, unpatched axial_step)',
            'per-tick assembly-update order']
    assumptions = [
        'constant-property worlds: the probe difference is exactly the update '
        'operator column (tolerance 1e-10); temperature-dependent worlds are '
        'probed with delta = 0.01 K and a tolerance of 2e-2 on the weights',
        'the unheated-tick invariant uses the hull of all coolant, wall and gap '
        'temperatures of the previous two levels (six-node and stagnant-gap '
        'models use wall values one level old)',
        'user-power inputs only']
    profile = {
        'const_prob': 0.7,
        'n_ring_core': [1, 2, 2],
        'gap_models': ['flow', 'flow', 'flow', 'none', 'no_flow',
                       'duct_average'],
        'bypass_fraction': (5e-4, 0.1),
        'low_flow_prob': 0.4,
        'vel': (0.1, 6.0),
        'length': (0.04, 0.15),
        'lowfi_prob': 0.25,
        'axial_region_prob': 0.45,
        'stagnant_byp_prob': 0.35,
        'n_duct': [1, 1, 2, 2, 3],
        'conv_approx_prob': 0.3,
        'common_cells_prob': 0.5,
        'zero_cell_prob': 0.4,
        'n_pcell': [1, 2, 3, 4],
        'pinmodel_prob': 0.0,
        'total_power_prob': 0.1,
        'scaling_prob': 0.0,
        'dT': (5.0, 80.0),
    }
    # swarm focus: worlds in which a low-fidelity region or the gap is the
    # step-limiting party
    variants = [
        (0.2, {'lowfi_prob': 0.7, 'low_flow_prob': 0.7, 'n_ring_core': [1],
               'gap_models': ['flow', 'no_flow', 'duct_average'],
               'axial_region_prob': 0.8, 'vel': (0.02, 0.5)}),
        (0.2, {'bypass_fraction': (2e-4, 5e-3), 'low_flow_prob': 0.1,
               'gap_models': ['flow'], 'n_ring_core': [2, 2, 3],
               'vel': (1.0, 8.0)}),
    ]
    variants.append(
        # multi-duct bundles whose (flowing) bypass gaps limit the step
        (0.2, {'n_duct': [2, 3, 3], 'stagnant_byp_prob': 0.1,
               'byp_ff': (0.003, 0.04), 'lowfi_prob': 0.0,
               'gap_models': ['none', 'none', 'flow', 'no_flow'],
               'n_ring_core': [1, 1, 2], 'vel': (0.5, 6.0),
               'low_flow_prob': 0.1}))
    tick_kinds = ('region', 'power')
    max_ticks = 1500
    truncate = 400

    def budget(self, tier):
        if tier == 'quick':
            return {'runs': 800, 'wall_s': 70, 'per_run_timeout': 300,
                    'shrink_s': 60,
                    'require_probes': ['c04.probe.gap', 'c04.probe.corner',
                                       'c04.probe.edge', 'c04.probe.interior',
                                       'c04.probe.node',
                                       'c04.probe_limiting_cell',
                                       'c04.unheated_tick',
                                       'c04.zero_power_world',
                                       'c04.gap_hull_checked'],
                    'require_fired': ['state.perturb'],
                    'min_evaluated': 60}
        return {'runs': 15000, 'wall_s': 1000, 'per_run_timeout': 900,
                'shrink_s': 300,
                'require_probes': ['c04.probe.gap', 'c04.probe.corner',
                                   'c04.probe.edge', 'c04.probe.interior',
                                   'c04.probe.node', 'c04.probe.byp_edge',
                                   'c04.probe.byp_corner',
                                   'c04.probe_limiting_cell',
                                   'c04.unheated_tick',
                                   'c04.zero_power_world',
                                   'c04.gap_hull_checked',
                                   'c04.probe_conservation'],
                'require_fired': ['state.perturb'],
                'min_evaluated': 800}

    def extend_case(self, case, S, tier):
        g = S('probe')
        spec = case['spec']
        zero = rng.chance(g, 0.12)
        if zero:
            spec['scaling'] = 0.0
            spec['total_power'] = None
            for p in spec['positions']:
                if p:
                    p['bc'] = 'FLOWRATE'
        case['zero_power'] = zero
        n = int(g.integers(5, 12 if tier == 'quick' else 21))
        probes = []
        for _ in range(n):
            probes.append({'tick': int(g.integers(1, 400)),
                           'kind': rng.choice(g, KINDS),
                           'asm': int(g.integers(0, 19)),
                           'cell': int(g.integers(0, 1000)),
                           'bypass': int(g.integers(0, 3))})
        # the step-limiting cell at the inlet end and at the last executed
        # tick: the limits are evaluated at the inlet and outlet temperatures
        # and must hold over the whole range
        for t in (1, 2, 0):
            probes.append({'tick': t, 'kind': 'auto', 'asm': 0, 'cell': 0,
                           'bypass': 0})
        case['probes'] = probes
        gs = S('stretch')
        case['stretch'] = {'u': float(gs.random()), 'delta': float(
            rng.choice(gs, [1e-5, 1e-4, 5e-4, 9e-4, 1e-3, 2e-3]))} \
            if rng.chance(gs, 0.5) else None

    def monitors(self, case, spec):
        return [oracles.PositivityC04(spec, case.get('probes', []),
                                      case.get('zero_power', False))]

    def _with_stretch_plane(self, case):
        # a requested plane a hair beyond the end of a regular step: the
        # mesh must insert a sliver step, never stretch the regular one
        # beyond the limit (the position depends on the step the tree under
        # test selects, so it is resolved here from a plain construction)
        st = case.get('stretch')
        if st:
            sim.quiet_logging()
            r = None
            with sim.scratch_dir() as d:
                try:
                    _, r = sim.build_reactor(case['spec'], d)
                except (sim.Rejected, sim.Crashed, sim.BudgetExceeded):
                    r = None
            if r is not None and len(r.z) > 4:
                k = 1 + int(st['u'] * (len(r.z) - 3))
                z_new = float(r.z[k]) + float(r.req_dz) * (1.0 + st['delta'])
                if z_new < float(r.core_length) - float(r.req_dz):
                    case = copy.deepcopy(case)
                    sp = case['spec']
                    sp['axial_plane'] = sorted(set(
                        list(sp.get('axial_plane', [])) + [z_new]))
                    case['stretch_plane'] = z_new
        return case

    def after(self, case, e, res, d):
        mon = e.S.monitors[0]
        if case.get('zero_power'):
            res['probes']['c04.zero_power_world'] = 1
        # probes planned beyond the end of the sweep are re-aimed inside it
        res['sample']['probe_results'] = mon.results[:4]
        res['nontrivial'] = len(mon.results) > 0

    def make_case(self, seed, tier):
        case = SweepProp.make_case(self, seed, tier)
        return case

    def run_case(self, case):
        # re-aim probe ticks into the sweep: ticks are planned modulo the
        # number of ticks, which is only known after construction
        case = copy.deepcopy(self._with_stretch_plane(case))
        self._reaim = True
        res = SweepProp.run_case(self, case)
        if case.get('stretch_plane') is not None and \
                isinstance(res.get('probes'), dict):
            res['probes']['c04.plane_beyond_step_end'] = 1
        return res

    def shrink_candidates(self, case):
        if len(case.get('probes', [])) > 1:
            for i in range(len(case['probes'])):
                c = copy.deepcopy(case)
                c['probes'] = [case['probes'][i]]
                yield c
        for c in SweepProp.shrink_candidates(self, case):
            yield c


PROP = C04()
