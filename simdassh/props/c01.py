"""C01 - every assembly coolant energy balance closes at every tick."""
import copy
import numpy as np

from .. import world, sim, rng, oracles
from .sweep import SweepProp


class C01(SweepProp):
    id = 'C01'
    level = 'exploration'
    rule = ('one case = one generated world (core layout, bundle/duct/bypass '
            'geometry, correlations, flows laminar..turbulent, power shapes, gap '
            'model incl. adiabatic, conv_approx, param_update_tol, low-fidelity '
            'and multi-region types) swept once under a seeded schedule with '
            'ticks placed on/near region and power bounds and seeded forced '
            'correlation updates; every Assembly.calculate is one ledger entry. '
            'non-trivial = sweep completed with >= 2 ticks; distinct = distinct '
            '(world class, schedule+tick plan digest)')
    stub = ['per-tick assembly-update order', 'tick placement via axial_plane '
            'requests', 'correlation-cache bypass at seeded ticks']
    assumptions = [
        'power from user CSV files only (VARPOW/CCCC unavailable here)',
        'round-off closure is asserted only in constant-property worlds; in '
        'temperature-dependent worlds the heat capacity a step effectively '
        'used (heat in / sum m dT) must lie within cp(T) over the mixed-mean '
        'temperatures of levels j-1..j+1, i.e. the residual is explicit-step '
        'property lag (proportional to the step) and nothing else',
        'wall heat is taken from the reported wall temperatures by Fourier\'s '
        'law (steady slab with uniform heating), i.e. the duct solution of C11 '
        'is used as the measuring instrument for the wall flux']
    profile = {'const_prob': 0.65, 'misalign_prob': 0.0,
               'n_duct': [1, 1, 1, 2, 3],
               'n_ring_core': [1, 1, 2, 2, 3],
               'gap_models': ['flow', 'none', 'none', 'no_flow',
                              'duct_average'],
               'length': (0.08, 0.35)}
    profile_thorough = {'rings': [2, 2, 3, 3, 4, 5], 'n_duct': [1, 1, 2, 3]}
    tick_kinds = ('region', 'power')

    def budget(self, tier):
        if tier == 'quick':
            return {'runs': 900, 'wall_s': 70, 'per_run_timeout': 200,
                    'shrink_s': 60,
                    'require_probes': ['c01.ledger_checked',
                                       'c01.tally_free_checked',
                                       'c01.region_change',
                                       'c01.tdep_cp_checked'],
                    'min_evaluated': 60}
        return {'runs': 30000, 'wall_s': 1000, 'per_run_timeout': 600,
                'shrink_s': 300,
                'require_probes': ['c01.ledger_checked',
                                   'c01.tally_free_checked',
                                   'c01.region_change', 'c01.conv_approx_tick',
                                   'c01.tdep_cp_checked'],
                'min_evaluated': 1000}

    def extend_case(self, case, S, tier):
        # near-twin flows (own random stream): in 30 % of the worlds every
        # further position of a type gets the flow of the first one up to the
        # fifth digit - valid input, and the place where anything keyed or
        # cached by a rounded flow rate would hand one assembly the
        # constants of another
        g = S('neartwin')
        if not rng.chance(g, 0.3):
            return
        first = {}
        for p in case['spec']['positions']:
            if not p:
                continue
            q = first.setdefault(p['type'], p)
            if q is not p:
                q['bc'] = p['bc'] = 'FLOWRATE'
                p['flow'] = world._r(q['flow'] * (1 + 1.2e-5), 6)
                case['neartwin'] = True

    def monitors(self, case, spec):
        return [oracles.LedgerC01(bool(spec.get('const')),
                                  spec['core']['gap_model'] == 'none')]


PROP = C01()
