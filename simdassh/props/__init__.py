"""Property checks.  Each module defines PROP, an instance of Prop."""
import copy
import importlib

IDS = ['C01', 'C02', 'C03', 'C04', 'C05', 'C06', 'C14', 'C15', 'C16',
       'C18', 'C20']


def get(pid):
    mod = importlib.import_module(f'simdassh.props.{pid.lower()}')
    return mod.PROP


REAL = ['dassh.read_input', 'dassh.reactor', 'dassh.assembly',
        'dassh.region', 'dassh.region_rodded', 'dassh.region_unrodded',
        'dassh.core', 'dassh.power (user-power path)',
        'dassh.mesh_functions', 'dassh.subchannel', 'dassh.pin',
        'dassh.material', 'dassh.correlations.*', 'dassh.logged_class']
NOT_RUN = ['VARPOW / CCCC binary power path (flux files are emptied in '
           'this sandbox)', 'dassh.plot']


class Prop(object):
    id = None
    level = 'exploration'
    rule = ''
    real = REAL
    stub = []
    assumptions = []

    def budget(self, tier):
        raise NotImplementedError

    def make_case(self, seed, tier):
        raise NotImplementedError

    def run_case(self, case):
        raise NotImplementedError

    def shrink_candidates(self, case):
        for spec in spec_shrinks(case['spec']):
            c = copy.deepcopy(case)
            c['spec'] = spec
            yield c


# ----------------------------------------------------------------------
# generic structured shrinking of a world spec
# ----------------------------------------------------------------------

def _used_types(spec):
    used = set(p['type'] for p in spec['positions'] if p)
    spec['types'] = [t for t in spec['types'] if t['name'] in used]


def _drop_power_for(spec, k):
    for pw in spec['power']:
        pw.pop(str(k + 1), None)


def _trim_rings(spec):
    """remove trailing empty outer rings"""
    pos = spec['positions']
    while len(pos) > 1:
        n = len(pos)
        # ring count R: n = 3R(R-1)+1
        R = 1
        while 3 * R * (R - 1) + 1 < n:
            R += 1
        first = 3 * (R - 1) * (R - 2) + 1
        if all(p is None for p in pos[first:]):
            del pos[first:]
        else:
            break


def spec_shrinks(spec):
    """Yield simpler specs, most aggressive first"""
    from .. import world
    n_present = sum(1 for p in spec['positions'] if p)
    # 1. drop assemblies (never the centre if it is the only one)
    if n_present > 1:
        idx = [i for i, p in enumerate(spec['positions']) if p]
        # drop halves first
        for chunk in (idx[len(idx) // 2:], idx[:len(idx) // 2]):
            if 0 < len(chunk) < len(idx):
                s = copy.deepcopy(spec)
                for i in chunk:
                    if i == len(s['positions']) - 1:
                        continue
                    s['positions'][i] = None
                    _drop_power_for(s, i)
                _finish(s)
                if s is not None and _valid_layout(s):
                    yield s
        for i in reversed(idx):
            s = copy.deepcopy(spec)
            s['positions'][i] = None
            _drop_power_for(s, i)
            _finish(s)
            if _valid_layout(s):
                yield s
    # 2. simplify types
    for ti, t in enumerate(spec['types']):
        if t.get('axial_regions'):
            for k in range(len(t['axial_regions'])):
                s = copy.deepcopy(spec)
                del s['types'][ti]['axial_regions'][k]
                _realign_power(s)
                yield s
        if t.get('spacer'):
            s = copy.deepcopy(spec)
            s['types'][ti]['spacer'] = None
            yield s
            if len(t['spacer']['axial_positions']) > 1:
                for k in range(len(t['spacer']['axial_positions'])):
                    s = copy.deepcopy(spec)
                    del s['types'][ti]['spacer']['axial_positions'][k]
                    yield s
        if t.get('pinmodel'):
            s = copy.deepcopy(spec)
            s['types'][ti]['pinmodel'] = None
            yield s
        if t.get('lowfi'):
            s = copy.deepcopy(spec)
            s['types'][ti]['lowfi'] = False
            s['types'][ti].pop('convection_factor', None)
            yield s
        if t.get('htc_params_duct'):
            s = copy.deepcopy(spec)
            s['types'][ti].pop('htc_params_duct')
            yield s
    # 3. power: fewer components, lower order, homogeneous
    for tp in range(len(spec['power'])):
        for a, pa in spec['power'][tp].items():
            if len(pa['comps']) > 1:
                for c in list(pa['comps']):
                    s = copy.deepcopy(spec)
                    del s['power'][tp][a]['comps'][c]
                    yield s
    if any(pa['order'] > 0 for pw in spec['power'] for pa in pw.values()):
        s = copy.deepcopy(spec)
        for pw in s['power']:
            for pa in pw.values():
                pa['order'] = 0
                for c, cells in pa['comps'].items():
                    for rows in cells:
                        for j in range(len(rows)):
                            rows[j] = rows[j][:1]
        yield s
    # 4. setup options
    for k in list(spec.get('setup', {})):
        if k in ('calc_energy_balance',):
            continue
        s = copy.deepcopy(spec)
        del s['setup'][k]
        yield s
    if spec.get('total_power') is not None:
        s = copy.deepcopy(spec)
        s['total_power'] = None
        yield s
    if spec.get('scaling', 1.0) != 1.0:
        s = copy.deepcopy(spec)
        s['scaling'] = 1.0
        yield s
    if spec.get('axial_plane'):
        s = copy.deepcopy(spec)
        s['axial_plane'] = []
        yield s
        if len(spec['axial_plane']) > 1:
            for k in range(len(spec['axial_plane'])):
                s = copy.deepcopy(spec)
                del s['axial_plane'][k]
                yield s
    if len(spec['power']) > 1:
        for tp in range(len(spec['power'])):
            s = copy.deepcopy(spec)
            del s['power'][tp]
            yield s


def _finish(s):
    _trim_rings(s)
    _used_types(s)
    # re-key the power of positions that survive (indices unchanged because
    # positions are position-indexed; trimming only removes trailing Nones)


def _valid_layout(s):
    pos = s['positions']
    return any(p is not None for p in pos) and pos[-1] is not None or \
        len(pos) == 1 and pos[0] is not None


def _realign_power(s):
    """after removing an axial region the bundle bounds moved; nothing to do
    for the spec itself (power cells are independent of region bounds)"""
    return s
