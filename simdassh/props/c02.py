"""C02 - inter-assembly heat exchange is conservative; core balance closes."""
from .. import oracles
from .sweep import SweepProp


class C02(SweepProp):
    id = 'C02'
    level = 'exploration'
    rule = ('one case = one generated gap-coupled (or adiabatic) core of 1..19 '
            'positions with seeded holes, mixed types (ring counts, pitches, '
            'double ducts, low-fidelity, multi-region), gap flow fraction and '
            'power map, swept once under a seeded per-tick permutation of the '
            'assembly updates; every (assembly, tick) is one exchange-ledger '
            'line (assembly side on its own mesh vs gap-side credit), every '
            'tick one gap balance, every sweep one core balance. non-trivial = '
            'completed sweep with >= 2 ticks; distinct = distinct (world class, '
            'schedule digest)')
    stub = ['per-tick assembly-update order', 'tick placement via axial_plane']
    assumptions = [
        'constant-property worlds only (the property states round-off closure '
        'for constant properties)',
        'six-node regions are checked on the outer-wall identity only (their '
        'one-level lag is stated in the property); worlds containing six-node, '
        'stagnant-bypass or conv_approx regions are excluded from the '
        'whole-sweep core balance',
        'user-power inputs only']
    profile = {'const_prob': 1.0, 'near_twin_prob': 0.2,
               'n_ring_core': [1, 2, 2, 2, 3],
               'hole_prob': 0.35,
               'gap_models': ['flow', 'flow', 'flow', 'none', 'no_flow',
                              'duct_average'],
               'n_types': [1, 2, 2, 3, 3],
               'rings': [2, 2, 3, 3, 4],
               'length': (0.06, 0.25),
               'bypass_fraction': (0.01, 0.15),
               'lowfi_prob': 0.2}
    profile_thorough = {'rings': [2, 3, 3, 4, 5], 'n_duct': [1, 1, 2, 3],
                        'n_ring_core': [1, 2, 2, 3, 3, 4]}
    tick_kinds = ('region', 'power')
    max_ticks = 2500

    def budget(self, tier):
        if tier == 'quick':
            return {'runs': 330, 'wall_s': 70, 'per_run_timeout': 200,
                    'shrink_s': 60,
                    'require_probes': ['c02.exchange_checked',
                                       'c02.gap_checked', 'c02.core_checked',
                                       'c02.unequal_mesh'],
                    'require_fired': ['sched.asm_order'],
                    'min_evaluated': 60}
        return {'runs': 20000, 'wall_s': 1000, 'per_run_timeout': 600,
                'shrink_s': 300,
                'require_probes': ['c02.exchange_checked', 'c02.gap_checked',
                                   'c02.core_checked', 'c02.unequal_mesh'],
                'require_fired': ['sched.asm_order'],
                'min_evaluated': 800}

    def monitors(self, case, spec):
        return [oracles.ExchangeC02(bool(spec.get('const')))]


PROP = C02()
