"""C18 - impossible or inconsistent inputs are rejected before any
calculation; every accepted input can be set up and swept.

What the simulator contributes: single faults injected into stored inputs
(semantic faults on the spec, file-level faults on the rendered input and
power files: truncation, torn last row, flipped byte, dropped column), the
ordering oracle over the history (verdict before the first temperature
event), bounded termination, and the execution mode as a schedule dimension
(the same faulty input is run serially and under SimPool, because a verdict
reached inside a pool worker is delivered differently).
"""
import contextlib
import copy
import io
import logging
import math
import os

import numpy as np

import dassh
from .. import world, sim, rng, simenv
from . import Prop, spec_shrinks
from .c16 import collect_outputs

PROFILE = {
    'n_ring_core': [1, 1, 2],
    'rings': [2, 2, 3],
    'n_types': [1, 2, 2],
    'gap_models': ['flow', 'none', 'no_flow', 'duct_average'],
    'pinmodel_prob': 0.4,
    'axial_region_prob': 0.5,
    'lowfi_prob': 0.15,
    'spacer_prob': 0.3,
    'timepoints': [1, 1, 2, 3],
    'length': (0.05, 0.15),
    'vel': (0.8, 8.0),
    'low_flow_prob': 0.05,
    'dT': (5.0, 40.0),
    'n_duct': [1, 1, 2, 3],
    'ftf_desc_prob': 0.35,
}

# every combination the input reader accepts (template options)
ALL_FF = ['NOV', 'REH', 'ENG', 'CTD', 'CTS', 'UCTD']
ALL_FS = ['NOV', 'SE2', 'MIT', 'CTD', 'UCTD']
ALL_MIX = ['MIT', 'CTD', 'UCTD']

_CPU_BUDGET_S = 200.0

# reader functions in which a traceback on damaged input text has been
# repaired: a traceback there is a regression, never the known long tail
_REPAIRED_READER_SITES = {
    '_split_positions', '_configobj_load', 'check_inputfile_sections',
    'strip_assignment_section', 'check_spacergrid',
    'check_unrodded_regions', 'get_timepoints', '__init__',
    'load_input'}

SEMANTIC = ['pins_dont_fit', 'wire_too_thick', 'clad_too_thick',
            'nonpositive_dimension', 'duct_ge_pitch', 'unequal_outer_ducts',
            'axial_region_inverted', 'axial_region_overlap',
            'axial_region_outside_core', 'missing_bc', 'undefined_assembly',
            'unknown_material', 'unknown_correlation', 'power_negative',
            'power_malformed']
FILE_FAULTS = ['truncate', 'torn_last_row', 'flip_byte', 'drop_column',
               'empty']


def apply_semantic(spec, kind, g):
    """Mutate the spec with exactly one fault; returns a description or None
    if the fault does not apply to this world"""
    t = spec['types'][int(g.integers(0, len(spec['types'])))]
    n = t['num_rings']
    if kind == 'pins_dont_fit':
        if t.get('lowfi'):
            return None
        t['pin_pitch'] = world._r(t['pin_pitch'] * g.uniform(1.15, 1.6), 7)
        return f'{t["name"]}: pin_pitch -> {t["pin_pitch"]}'
    if kind == 'wire_too_thick':
        t['wire_diameter'] = world._r(
            (t['pin_pitch'] - t['pin_diameter']) * g.uniform(1.05, 2.0), 6)
        return f'{t["name"]}: wire_diameter -> {t["wire_diameter"]}'
    if kind == 'clad_too_thick':
        t['clad_thickness'] = world._r(
            t['pin_diameter'] * g.uniform(0.51, 0.9), 6)
        return f'{t["name"]}: clad_thickness -> {t["clad_thickness"]}'
    if kind == 'nonpositive_dimension':
        key = rng.choice(g, ['num_rings', 'pin_pitch', 'pin_diameter',
                             'clad_thickness', 'duct_ftf', 'length',
                             'assembly_pitch', 'wire_pitch'])
        val = rng.choice(g, [0.0, -1.0])
        if key == 'length':
            spec['core']['length'] = val * spec['core']['length']
        elif key == 'assembly_pitch':
            spec['core']['assembly_pitch'] = \
                val * spec['core']['assembly_pitch']
        elif key == 'num_rings':
            t['num_rings'] = int(val)
        elif key == 'duct_ftf':
            i = int(g.integers(0, len(t['duct_ftf'])))
            t['duct_ftf'] = list(t['duct_ftf'])
            t['duct_ftf'][i] = val * t['duct_ftf'][i]
        elif key == 'wire_pitch':
            if val == 0.0:
                return None      # zero wire pitch means "no wire"
            t['wire_pitch'] = val * t['wire_pitch']
        else:
            t[key] = val * t[key]
        return f'{key} -> {"0" if val == 0.0 else "negative"}'
    if kind == 'duct_ge_pitch':
        spec['core']['assembly_pitch'] = world._r(
            max(t['duct_ftf']) * g.uniform(0.9, 1.0), 6)
        return f'assembly_pitch -> {spec["core"]["assembly_pitch"]}'
    if kind == 'unequal_outer_ducts':
        if len(spec['types']) < 2:
            return None
        t['duct_ftf'] = list(t['duct_ftf'])
        t['duct_ftf'][-1] = world._r(
            t['duct_ftf'][-1] * (1 + g.uniform(1e-4, 2e-3)), 9)
        if t['duct_ftf'][-1] >= spec['core']['assembly_pitch']:
            return None
        return f'{t["name"]}: outer duct -> {t["duct_ftf"][-1]}'
    if kind in ('axial_region_inverted', 'axial_region_overlap'):
        cands = [x for x in spec['types'] if x.get('axial_regions')]
        if not cands:
            return None
        t = cands[int(g.integers(0, len(cands)))]
        L = spec['core']['length']
        r = t['axial_regions'][int(g.integers(0, len(t['axial_regions'])))]
        if kind == 'axial_region_inverted':
            r['z_lo'], r['z_hi'] = r['z_hi'], r['z_lo']
            return f'{t["name"]}/{r["name"]}: z_lo > z_hi'
        if len(t['axial_regions']) < 2:
            return None
        a, b = t['axial_regions'][0], t['axial_regions'][1]
        lo, hi = (a, b) if a['z_lo'] < b['z_lo'] else (b, a)
        hi['z_lo'] = world._r(lo['z_hi'] * g.uniform(0.3, 0.9), 5)
        return f'{t["name"]}: regions overlap ({hi["z_lo"]} < {lo["z_hi"]})'
    if kind == 'axial_region_outside_core':
        cands = [x for x in spec['types'] if x.get('axial_regions')]
        if not cands:
            return None
        t = cands[int(g.integers(0, len(cands)))]
        L = spec['core']['length']
        top = max(t['axial_regions'], key=lambda r: r['z_hi'])
        bot = min(t['axial_regions'], key=lambda r: r['z_lo'])
        if top['z_hi'] >= L and (bot['z_lo'] > 0 or rng.chance(g, 0.7)):
            top['z_hi'] = world._r(L * (1 + rng.loguniform(g, 1e-3, 0.3)), 6)
            return (f'{t["name"]}/{top["name"]}: z_hi {top["z_hi"]} above '
                    f'the core length {L}')
        if bot['z_lo'] <= 0:
            bot['z_lo'] = -world._r(L * rng.loguniform(g, 1e-3, 0.3), 6)
            return f'{t["name"]}/{bot["name"]}: z_lo {bot["z_lo"]} below 0'
        return None
    if kind == 'undefined_assembly':
        # a position assigned to an assembly type that is not defined: an
        # unrelated name, or one that is a fragment / an extension of a
        # defined name
        ps = [p for p in spec['positions'] if p]
        p = ps[int(g.integers(0, len(ps)))]
        old = p['type']
        how = rng.choice(g, ['unrelated', 'prefix', 'suffix', 'extended',
                             'case'])
        new = {'unrelated': 'zz9', 'prefix': old[:-1] or 'q',
               'suffix': old[1:] or 'q', 'extended': old + '0',
               'case': old.upper()}[how]
        if new in [t['name'] for t in spec['types']] or new == old:
            return None
        p['type'] = new
        return (f'position ({p["ring"]},{p["pos"]}) assigned to undefined '
                f'assembly "{new}" ({how} of "{old}")')
    if kind == 'missing_bc':
        ps = [p for p in spec['positions'] if p]
        p = ps[int(g.integers(0, len(ps)))]
        p['bc'] = rng.choice(g, ['', 'POWER=1.0'])
        return f'position ({p["ring"]},{p["pos"]}) without boundary condition'
    if kind == 'unknown_material':
        if rng.chance(g, 0.5):
            spec['core']['coolant_material'] = 'unobtainium'
            return 'coolant_material -> unobtainium'
        t['duct_material'] = 'adamantium'
        return f'{t["name"]}: duct_material -> adamantium'
    if kind == 'unknown_correlation':
        key = rng.choice(g, ['corr_friction', 'corr_flowsplit',
                             'corr_mixing', 'corr_nusselt'])
        t[key] = 'XYZ'
        return f'{t["name"]}: {key} -> XYZ'
    if kind in ('power_negative', 'power_malformed'):
        tp = int(g.integers(0, len(spec['power'])))
        pw = spec['power'][tp]
        a = rng.choice(g, sorted(pw.keys()))
        pa = pw[a]
        c = rng.choice(g, sorted(pa['comps'].keys()))
        cells = pa['comps'][c]
        i = int(g.integers(0, len(cells)))
        j = int(g.integers(0, len(cells[i])))
        if kind == 'power_negative':
            mag = max(abs(cells[i][j][0]), 1.0)
            cells[i][j][0] = -mag * g.uniform(0.1, 2.0)
            return f'tp{tp + 1} asm {a} {c}[{i}][{j}] negative'
        how = rng.choice(g, ['drop_item', 'gap', 'short_core', 'long_core',
                             'extra_item', 'nan', 'inf', 'overlap_same_hi',
                             'overlap'])
        typ = [x for x in spec['types'] if x['name'] ==
               spec['positions'][int(a) - 1]['type']][0]
        if how in ('drop_item', 'extra_item') and typ.get('lowfi'):
            return None     # item counts are free for low-fidelity types
        if how in ('nan', 'inf'):
            # a number that is not a number / not finite
            cells[i][j][int(g.integers(0, len(cells[i][j])))] = \
                float('nan') if how == 'nan' else float('inf')
        elif how == 'drop_item':
            if len(cells[i]) < 2:
                return None
            del cells[i][j]
        elif how == 'extra_item':
            cells[i].append(list(cells[i][j]))
        elif how == 'gap':
            if len(pa['zb']) < 3:
                return None
            spec.setdefault('power_raw_gap', []).append([tp, a])
        elif how in ('overlap_same_hi', 'overlap'):
            # overlapping axial power cells: the first cell reaching up to
            # the last upper bound, or the second cell starting inside the
            # first (rows edited in the rendered file)
            if len(pa['zb']) < 3:
                return None
            spec.setdefault('power_raw_gap', []).append([tp, a, how])
        elif how == 'short_core':
            pa['zb'] = list(pa['zb'])
            pa['zb'][-1] = world._r(pa['zb'][-1] * g.uniform(0.5, 0.95), 5)
            if pa['zb'][-1] <= pa['zb'][-2]:
                return None
        else:
            pa['zb'] = list(pa['zb'])
            pa['zb'][-1] = world._r(pa['zb'][-1] * g.uniform(1.05, 1.5), 5)
        return f'tp{tp + 1} asm {a} {c}: {how}'
    raise ValueError(kind)


def apply_file_fault(dirpath, fault):
    """Corrupt one rendered file in place"""
    p = os.path.join(dirpath, fault['file'])
    with open(p, 'rb') as f:
        b = f.read()
    k = fault['kind']
    if k == 'truncate':
        b = b[:int(len(b) * fault['frac'])]
    elif k == 'torn_last_row':
        lines = b.split(b'\n')
        while lines and lines[-1] == b'':
            lines.pop()
        last = lines[-1]
        lines[-1] = last[:max(1, int(len(last) * fault['frac']))]
        b = b'\n'.join(lines)
    elif k == 'flip_byte':
        i = int(len(b) * fault['frac']) % max(len(b), 1)
        b = b[:i] + bytes([b[i] ^ (1 << fault['bit'])]) + b[i + 1:]
    elif k == 'drop_column':
        lines = b.split(b'\n')
        i = int(len(lines) * fault['frac']) % max(len(lines), 1)
        parts = lines[i].split(b',')
        if len(parts) > 1:
            del parts[fault['bit'] % len(parts)]
        lines[i] = b','.join(parts)
        b = b'\n'.join(lines)
    elif k == 'empty':
        b = b''
    with open(p, 'wb') as f:
        f.write(b)


class _Capture(logging.Handler):
    def __init__(self, sink):
        logging.Handler.__init__(self, level=30)
        self.sink = sink

    def emit(self, record):
        self.sink.append((record.levelno, str(record.getMessage())[:160]))


def run_command(dirpath, parallel_pool=None):
    """Execute the real dassh main() on dirpath/input.txt; returns a dict
    with outcome, logged errors, history counts"""
    import dassh.__main__ as dmain
    path = os.path.join(dirpath, 'input.txt')
    records = []
    cap = _Capture(records)
    orig_init = dassh.logged_class.init_root_logger

    def init_root_logger(*a, **kw):
        lg = orig_init(*a, **kw)
        for h in list(lg.handlers):
            if isinstance(h, logging.StreamHandler) and \
                    not isinstance(h, logging.FileHandler):
                lg.removeHandler(h)
        lg.addHandler(cap)
        lg.propagate = False
        return lg

    fs = simenv.SimFS(pool_plan=parallel_pool)
    S = sim.Sim()
    S.max_planes = 4000
    out = io.StringIO()
    outcome = 'ok'
    detail = ''
    dassh.logged_class.init_root_logger = init_root_logger
    # module-level loggers (dassh.power, ...) log outside LoggedClass
    root = logging.getLogger('dassh')
    root.setLevel(logging.DEBUG)
    root.addHandler(cap)
    # liveness outside the mesh construction (reader loops, iterations):
    # a CPU-time budget far above what any generated input needs (< 20 s);
    # processor time of this process, so machine load does not matter.  It
    # re-fires because DASSH has bare "except:" clauses that may swallow it
    import signal

    def _cpu_budget(signum, frame):
        raise sim.BudgetExceeded(
            f'no verdict and no result after {_CPU_BUDGET_S} s of '
            f'processor time')

    old_vt = signal.signal(signal.SIGVTALRM, _cpu_budget)
    signal.setitimer(signal.ITIMER_VIRTUAL, _CPU_BUDGET_S, 5.0)
    try:
        with S, fs:
            try:
                with contextlib.redirect_stdout(out), \
                        contextlib.redirect_stderr(out):
                    dmain.main([path, '--save_reactor'])
            except simenv.SimDeadlock as e:
                outcome, detail = 'deadlock', str(e)
            except sim.BudgetExceeded as e:
                outcome, detail = 'hang', str(e)
            except SystemExit:
                outcome = 'exit'
            except Exception as e:
                c = sim.Crashed(e)
                outcome = 'crash'
                detail = f'{c.etype}@{c.site}: {str(e)[:160]}'
    finally:
        signal.setitimer(signal.ITIMER_VIRTUAL, 0.0)
        signal.signal(signal.SIGVTALRM, old_vt)
        dassh.logged_class.init_root_logger = orig_init
        root.removeHandler(cap)
        dassh.logged_class.shutdown_logger('dassh')
        sim.quiet_logging()
    counts = dict(S.hist.counts)
    return {'outcome': outcome, 'detail': detail,
            'errors': [m for lv, m in records if lv >= 40],
            'n_updates': counts.get('asm_update', 0)
            + counts.get('gap_update', 0),
            'ticks': counts.get('tick_begin', 0), 'fs': fs, 'sim': S}


def garbage(dirpath, ntp):
    """NaN / inf / non-positive kelvin in the saved results"""
    import pickle
    for tp in range(ntp):
        d = dirpath if ntp == 1 else os.path.join(dirpath,
                                                  f'timestep_{tp + 1}')
        p = os.path.join(d, 'dassh_reactor.pkl')
        if not os.path.exists(p):
            return f'time point {tp + 1}: no saved reactor'
        with open(p, 'rb') as f:
            r = pickle.load(f)
        for a in r.assemblies:
            for k, v in a.active_region.temp.items():
                if not np.all(np.isfinite(v)) or np.any(v <= 0):
                    return f'time point {tp + 1} asm{a.id} {k}: non-finite ' \
                           f'or non-positive temperature'
            if hasattr(a.active_region, 'pin_temps'):
                pt = a.active_region.pin_temps[:, 3:]
                if not np.all(np.isfinite(pt)) or np.any(pt <= 0):
                    return f'time point {tp + 1} asm{a.id} pin temperatures ' \
                           f'non-finite'
            if 'pin' in a._peak:
                for k, v in a._peak['pin'].items():
                    if not np.isfinite(v[0]):
                        return f'time point {tp + 1} asm{a.id} peak {k} ' \
                               f'non-finite'
    return None


class C18(Prop):
    id = 'C18'
    level = 'fault_enumeration'
    rule = ('one case = one valid generated world (incl. every correlation '
            'combination the reader accepts, three-duct bundles, pin models, '
            'spacer grids, 1-3 time points) and exactly one injected fault: a '
            'semantic fault from the classes the property lists (13 kinds) or a '
            'file-level fault (truncate / torn last row / flipped bit / dropped '
            'column / empty) on the input or a power file, or no fault at all; '
            'each case is executed with the real dassh main() serially and, for '
            'multi-point inputs, under SimPool. Oracle: listed faults end in '
            'SystemExit after a logged error with zero temperature events in '
            'the history; file faults may stay valid (then they must sweep) or '
            'be rejected the same way; unfaulted worlds must sweep; no unhandled '
            'exception, no hang (deterministic budget), no parent deadlock, no '
            'NaN/inf/non-positive temperature. non-trivial = a fault was '
            'applied or the clean world was swept; distinct = distinct (world '
            'class, fault)')
    stub = ['multiprocessing.Pool -> SimPool', 'file-system shim (pass-through)']
    assumptions = [
        'single faults only (the property quantifies over single-fault '
        'perturbations)',
        'a hang is reported through the mesh plane budget of the simulator',
        'user-power inputs only']

    def budget(self, tier):
        req = ['c18.fault.' + k for k in SEMANTIC] + \
            ['c18.file_fault', 'c18.clean', 'c18.pool_mode', 'c18.rejected',
             'c18.file_fault_still_valid']
        if tier == 'quick':
            return {'runs': 1800, 'wall_s': 70, 'per_run_timeout': 300,
                    'shrink_s': 60, 'min_evaluated': 150,
                    'require_probes': req}
        return {'runs': 40000, 'wall_s': 1000, 'per_run_timeout': 900,
                'shrink_s': 300, 'min_evaluated': 4000,
                'require_probes': req}

    def make_case(self, seed, tier):
        S = rng.Streams(seed)
        g = S('fault')
        prof = dict(PROFILE)
        spec = world.gen(seed, prof)
        # any combination of correlations the reader accepts
        gc = S('corr')
        for t in spec['types']:
            if rng.chance(gc, 0.5):
                for _ in range(8):
                    ff = rng.choice(gc, ALL_FF)
                    fs = rng.choice(gc, ALL_FS)
                    mx = rng.choice(gc, ALL_MIX)
                    fam = ('CTD', 'UCTD')
                    ok = not (fs in fam and ff not in fam) and \
                        not (mx in fam and not (fs in fam and ff in fam))
                    # mostly combinations that can be evaluated; some that
                    # the reader has to turn down
                    if ok or rng.chance(gc, 0.15):
                        break
                t['corr_friction'], t['corr_flowsplit'] = ff, fs
                t['corr_mixing'] = mx
                if t.get('spacer') and t['spacer'].get('corr') \
                        and fs not in fam and rng.chance(gc, 0.85):
                    t['spacer'] = None
        case = {'property': 'C18', 'seed': int(seed), 'spec': spec,
                'fault': None}
        u = g.random()
        if u < 0.6:
            for _ in range(6):
                kind = rng.choice(g, SEMANTIC)
                s2 = copy.deepcopy(spec)
                desc = apply_semantic(s2, kind, g)
                if desc is not None:
                    case['spec'] = s2
                    case['fault'] = {'class': 'semantic', 'kind': kind,
                                     'desc': desc}
                    break
        elif u < 0.85:
            files = ['input.txt'] + [f'power_{i + 1}.csv'
                                     for i in range(len(spec['power']))]
            case['fault'] = {'class': 'file',
                             'kind': rng.choice(g, FILE_FAULTS),
                             'file': rng.choice(g, files),
                             'frac': float(g.random()),
                             'bit': int(g.integers(0, 8))}
        case['pool'] = {'order': ['seeded', int(g.integers(0, 2**31))],
                        'n_cpu': int(g.integers(2, 4))}
        return case

    def run_case(self, case):
        sim.quiet_logging()
        spec = case['spec']
        f = case.get('fault')
        ntp = len(spec['power'])
        res = {'violations': [], 'probes': {}, 'fired': {},
               'features': world.features(spec)
               + ((f['class'], f['kind']) if f else ('clean',)),
               'executions': 0, 'ticks': 0,
               'length_m': 0.0}

        def vio(oracle, site, detail, feats=()):
            feats = set(feats)
            if f:
                feats |= {f['class'], f['kind']}
            res['violations'].append(sim.Violation(
                oracle, site, detail, feats).to_json())

        modes = [('serial', None)]
        if ntp > 1:
            modes.append(('pool', case['pool']))
        for mode, pool in modes:
            with sim.scratch_dir() as d:
                s = copy.deepcopy(spec)
                raw_gap = s.pop('power_raw_gap', None)
                s['setup'] = dict(s['setup'])
                if pool:
                    s['setup']['parallel'] = True
                    s['setup']['n_cpu'] = pool['n_cpu']
                try:
                    world.render(s, d)
                except Exception as e:
                    return {'status': 'discard', 'reason':
                            'render:' + type(e).__name__, 'violations': []}
                if raw_gap:
                    for item in raw_gap:
                        tp, a = item[0], item[1]
                        how = item[2] if len(item) > 2 else 'gap'
                        _make_gap(os.path.join(d, f'power_{tp + 1}.csv'), a,
                                  how)
                if f and f['class'] == 'file':
                    apply_file_fault(d, f)
                    res['fired']['input.file'] = \
                        res['fired'].get('input.file', 0) + 1
                    res['probes']['c18.file_fault'] = 1
                elif f:
                    res['fired']['input.semantic'] = \
                        res['fired'].get('input.semantic', 0) + 1
                    res['probes']['c18.fault.' + f['kind']] = 1
                else:
                    res['probes']['c18.clean'] = 1
                if pool:
                    res['probes']['c18.pool_mode'] = 1
                out = run_command(d, pool)
                res['executions'] += 1
                res['ticks'] += out['ticks']
                for k, v in out['fs'].fired.items():
                    res['fired'][k] = res['fired'].get(k, 0) + v
                site = f'{mode} execution'
                oc = out['outcome']
                feats = {mode}
                if oc == 'crash':
                    cs = out['detail'].split(':')[0]
                    extra = set()
                    fn = (out['detail'].split(':') + ['', ''])[1].strip()
                    if f and f['class'] == 'file' and \
                            f.get('file') == 'input.txt' and \
                            cs.endswith('@read_input.py') and \
                            fn not in _REPAIRED_READER_SITES:
                        # damaged *input text* and the exception is raised
                        # inside the reader module: the long tail recorded
                        # as F-C18-6
                        extra.add('damaged_text_reader_traceback')
                    vio('outcome.unhandled_exception', f'{site} {cs}',
                        out['detail'],
                        feats | {'crash', cs, f'{cs}:{fn}'} | extra)
                    continue
                if oc == 'hang':
                    if 'plane cap' in out['detail']:
                        # mesh too fine for the harness to execute: not a
                        # verdict about DASSH
                        res['probes']['c18.too_fine_to_execute'] = 1
                        continue
                    vio('outcome.hang', site, out['detail'], feats | {'hang'})
                    continue
                if oc == 'deadlock':
                    vio('outcome.parent_deadlock', site,
                        'a time point stopped with an error inside a pool '
                        'worker; its result is never delivered and the parent '
                        'blocks for ever in get(): ' + out['detail'],
                        feats | {'verdict_in_pool_worker'})
                    continue
                if oc == 'exit':
                    res['probes']['c18.rejected'] = 1
                    if not out['errors']:
                        vio('verdict.no_message', site,
                            'terminated without an error message', feats)
                    if f is None:
                        # a valid world may still be stopped with a message
                        # (e.g. pin iteration limit); nothing else to check
                        res['probes']['c18.clean_rejected'] = 1
                    if f is not None and f['class'] == 'semantic' \
                            and out['n_updates'] > 0:
                        vio('verdict.after_calculation', site,
                            f'{out["n_updates"]} temperature updates were '
                            f'computed before the error verdict for: '
                            f'{f["desc"]} (errors: {out["errors"][:1]})',
                            feats | {'late_verdict'} | (
                                {'multi_time_point'} if ntp > 1 else set()))
                    continue
                # completed
                if f is not None and f['class'] == 'semantic':
                    vio('verdict.accepted', site,
                        f'input with fault "{f["desc"]}" was accepted and '
                        f'swept', feats | {'accepted'})
                    continue
                if f is not None:
                    res['probes']['c18.file_fault_still_valid'] = 1
                # a file fault may change the number of time points
                ntp_out = ntp
                if f is not None and f['class'] == 'file':
                    k = 0
                    while os.path.isdir(os.path.join(d, f'timestep_{k + 1}')):
                        k += 1
                    ntp_out = k if k > 1 else 1
                g = garbage(d, ntp_out)
                if g:
                    vio('outcome.garbage_temperature', site, g,
                        feats | {'garbage'})
        res['nontrivial'] = True
        res['sched_digest'] = rng.h64(repr(f), repr(case['pool']))
        res['hist_digest'] = str(res['sched_digest'])
        res['sample'] = {'seed': case['seed'], 'fault': f,
                         'timepoints': ntp,
                         'types': [(t['num_rings'], len(t['duct_ftf']) // 2,
                                    t['corr_friction'], t['corr_flowsplit'],
                                    t['corr_mixing'])
                                   for t in spec['types']]}
        return res

    def shrink_candidates(self, case):
        for spec in spec_shrinks(case['spec']):
            c = copy.deepcopy(case)
            c['spec'] = spec
            f = c.get('fault')
            if f and f['class'] == 'file' and f['file'].startswith('power_'):
                k = int(f['file'].split('_')[1].split('.')[0])
                if k > len(spec['power']):
                    continue
            yield c


def _make_gap(path, a, how='gap'):
    """open a gap between two axial power cells of assembly a, or make
    them overlap"""
    with open(path) as fh:
        lines = fh.read().splitlines()
    zs = sorted(set(float(ln.split(',')[3]) for ln in lines
                    if ln.split(',')[0] == str(a)))
    if len(zs) < 2:
        return
    z = zs[0]
    out = []
    for ln in lines:
        p = ln.split(',')
        if p[0] == str(a):
            if how == 'gap' and float(p[2]) == z:
                p[2] = repr(z * 1.2)
            elif how == 'overlap' and float(p[2]) == z:
                p[2] = repr(z * 0.6)
            elif how == 'overlap_same_hi' and float(p[3]) == z:
                p[3] = repr(zs[-1])
        out.append(','.join(p))
    with open(path, 'w') as fh:
        fh.write('\n'.join(out) + '\n')


PROP = C18()
