"""C20 - orifice grouping partitions assemblies; flow distribution conserves
flow.  The real fixed-point loop Orificing(input).optimize() is run end to end
against the real plant (DASSH sweeps) with its state on disk; invariants are
checked after every controller action (_group, regroup, distribute) of every
iteration history.  A second execution with permuted directory listings, the
pool scheduler and wall-clock jumps must reach the same distribution.
"""
import contextlib
import copy
import io
import os

import numpy as np

import dassh
import dassh.__main__      # as the command line entry point does
from .. import world, sim, rng, simenv
from . import Prop, spec_shrinks

PROFILE = {
    'n_ring_core': [2, 2, 3],
    'hole_prob': 0.2,
    'n_types': [1, 1, 2],
    'rings': [2, 2, 3],
    'n_duct': [1],
    'gap_models': ['none', 'no_flow', 'flow', 'duct_average'],
    'lowfi_prob': 0.0,
    'axial_region_prob': 0.15,
    'spacer_prob': 0.1,
    'pinmodel_prob': 0.0,
    'timepoints': [1, 1, 2],
    'length': (0.04, 0.1),
    'vel': (1.0, 6.0),
    'low_flow_prob': 0.0,
    'dT': (40.0, 120.0),
    'total_power_prob': 0.0,
    'scaling_prob': 0.0,
    'conv_approx_prob': 0.0,
    'mesh_size_prob': 0.0,
    'const_prob': 0.3,
    'hetero_power': True,
    'n_pcell': [1, 2],
    'porder': [0, 1],
    'zero_cell_prob': 0.0,
    # the optimiser evaluates peak linear pin power for every assembly
    'pcomp_sets': [('pins',), ('pins', 'duct', 'cool'), ('pins', 'cool')],
    # ... and averages the power profiles of a type, which requires one
    # axial power mesh and one component set for all assemblies
    'common_cells_prob': 1.0,
    'common_comps': True,
}


class ActionLog(object):
    def __init__(self):
        self.actions = []
        self.violations = []
        self.probes = {}

    def probe(self, k, n=1):
        self.probes[k] = self.probes.get(k, 0) + n

    def vio(self, oracle, site, detail, feats=()):
        self.violations.append(sim.Violation(oracle, site, detail,
                                             set(feats)).to_json())


def partition_check(log, label, ids_asked, gd, n_groups, ordered, params=None):
    """gd: N x 3 (asm id, parameter, group id)"""
    ids = [int(x) for x in gd[:, 0]]
    if sorted(ids) != sorted(int(x) for x in ids_asked):
        log.vio('group.partition', label,
                f'assemblies asked {sorted(ids_asked)} but grouped {sorted(ids)}',
                ['partition'])
        return
    g = gd[:, 2].astype(int)
    present = sorted(set(int(x) for x in g))
    if present != list(range(n_groups)):
        feats = ['group_count']
        if len(present) == n_groups - 1:
            feats.append('one_group_short')
        log.vio('group.count', label,
                f'{n_groups} groups requested but groups present are '
                f'{present} (sizes {[int(np.sum(g == k)) for k in present]})',
                feats)
        return
    if ordered:
        # no assembly in a later group exceeds one in an earlier group
        for k in range(n_groups - 1):
            lo_prev = np.min(gd[g == k, 1])
            hi_next = np.max(gd[g > k, 1])
            if hi_next > lo_prev:
                log.vio('group.order', label,
                        f'group {k} has parameter {lo_prev!r} but a later '
                        f'group holds {hi_next!r}', ['order'])
                return
    log.probe('c20.partition_ok')


class C20(Prop):
    id = 'C20'
    level = 'exploration'
    rule = ('one case = one generated user-power core (7-19 positions, 1-2 '
            'grouped assembly types, 1-2 time points, powers with ties / '
            'clusters / wide spread) with an [Orificing] block (n_groups 1..N, '
            'cut-off parameters, regroup never/once/every, iteration limit '
            '1-4, optional pressure-drop limit binding in zero, one or several '
            'groups) run through the real Orificing.optimize() loop; after '
            'every _group / regroup / distribute the partition, count, '
            'ordering, equal-flow, conservation and limit invariants are '
            'evaluated. The optimisation is repeated with permuted directory '
            'listings, SimPool and wall-clock jumps and must distribute the '
            'same flows. non-trivial = at least one distribute completed; '
            'distinct = distinct (world class, orificing block, plan)')
    stub = ['os.listdir order (SimFS)', 'multiprocessing.Pool -> SimPool',
            'wall clock (SimClock)']
    assumptions = [
        'an action that ends in an exception or an error exit counts as '
        '"stopped with an error"; only silent wrong results are violations '
        '(a reach probe requires that most optimisations complete)',
        'recycle_results is False (nothing is asserted about resuming from '
        'caches)', 'user-power inputs only']

    def budget(self, tier):
        if tier == 'quick':
            return {'runs': 700, 'wall_s': 75, 'per_run_timeout': 400,
                    'shrink_s': 90, 'min_evaluated': 40,
                    'require_probes': ['c20.group_checked',
                                       'c20.distribute_checked',
                                       'c20.completed', 'c20.second_run'],
                    'require_fired': ['fs.listdir_order']}
        return {'runs': 8000, 'wall_s': 1000, 'per_run_timeout': 900,
                'shrink_s': 300, 'min_evaluated': 600,
                'require_probes': ['c20.group_checked',
                                   'c20.distribute_checked',
                                   'c20.regroup_checked', 'c20.completed',
                                   'c20.second_run', 'c20.dp_limit_binds',
                                   'c20.ties'],
                'require_fired': ['fs.listdir_order', 'sched.pool']}

    def make_case(self, seed, tier):
        spec = world.gen(seed, PROFILE)
        S = rng.Streams(seed)
        g = S('orif')
        # power pattern across assemblies: ties / clusters / wide spread
        mode = rng.choice(g, ['spread', 'clustered', 'ties', 'asdrawn'])
        present = [p for p in spec['positions'] if p]
        if mode != 'asdrawn':
            base = [p['flow'] * p['dT'] for p in present]
            if mode == 'ties':
                vals = [1.0, 1.0, 0.7, 0.7, 0.7, 0.4]
            elif mode == 'clustered':
                vals = [1.0, 0.98, 0.97, 0.6, 0.59, 0.3, 0.31]
            else:
                vals = list(np.geomspace(1.0, 0.15, 7))
            for k, p in enumerate(spec['positions']):
                if not p:
                    continue
                f = vals[int(g.integers(0, len(vals)))]
                for pw in spec['power']:
                    pa = pw[str(k + 1)]
                    for c, cells in pa['comps'].items():
                        for rows in cells:
                            for co in rows:
                                for q in range(len(co)):
                                    co[q] = world._r(co[q] * f, 8)
            if mode == 'ties':
                # identical power files for several assemblies of one type
                ks = [k for k, p in enumerate(spec['positions']) if p]
                ref = {}
                for k in ks:
                    t = spec['positions'][k]['type']
                    if t in ref and rng.chance(g, 0.5):
                        for tp in range(len(spec['power'])):
                            spec['power'][tp][str(k + 1)] = copy.deepcopy(
                                spec['power'][tp][str(ref[t] + 1)])
                    else:
                        ref.setdefault(t, k)
        types = [t['name'] for t in spec['types']]
        ngt = 1 if len(types) == 1 or rng.chance(g, 0.6) else 2
        grouped = types[:ngt]
        n_in = sum(1 for p in present if p['type'] in grouped)
        n_groups = int(g.integers(1, max(2, min(n_in, 5)) + 1))
        tin = spec['core']['coolant_inlet_temp']
        orf = {'assemblies_to_group': grouped,
               'n_groups': n_groups,
               'value_to_optimize': 'peak coolant temp',
               'bulk_coolant_temp': world._r(tin + g.uniform(40.0, 120.0), 6),
               'iteration_limit': int(g.integers(1, 5)),
               'convergence_tol': rng.choice(g, [1e-3, 5e-3, 2e-2]),
               'regroup': rng.choice(g, ['never', 'never', 'once', 'every']),
               'recycle_results': False}
        if rng.chance(g, 0.4):
            orf['group_cutoff'] = world._r(rng.loguniform(g, 0.01, 0.5), 3)
        if rng.chance(g, 0.4):
            orf['group_cutoff_delta'] = world._r(
                rng.loguniform(g, 1e-4, 2e-2), 3)
        if rng.chance(g, 0.3):
            orf['regroup_option_tol'] = world._r(g.uniform(0.0, 0.1), 3)
            orf['regroup_improvement_tol'] = world._r(g.uniform(0.0, 0.1), 3)
        case = {'property': 'C20', 'seed': int(seed), 'spec': spec,
                'orificing': orf, 'dp_limit_frac': None,
                'plan': {'listdir': ['seeded', int(g.integers(0, 2**31))],
                         'pool': {'order': ['seeded',
                                            int(g.integers(0, 2**31))],
                                  'n_cpu': int(g.integers(2, 4))},
                         'clock': {str(int(g.integers(1, 5))): 7200.0}}}
        if rng.chance(g, 0.35):
            # limit relative to the pressure drop range of the parametric
            # sweep (resolved at run time, when that range is known)
            case['dp_limit_frac'] = float(rng.choice(g, [0.02, 0.1, 0.3, 0.7,
                                                          1.5]))
        return case

    # ------------------------------------------------------------------
    def _optimize(self, case, d, fs_plan=None, pool=None, clock=None,
                  parallel=False, dp_limit=None):
        """One real optimisation under the observation seams"""
        spec = copy.deepcopy(case['spec'])
        orf = dict(case['orificing'])
        if dp_limit is not None:
            orf['pressure_drop_limit'] = dp_limit
        spec['orificing'] = orf
        spec['setup'] = dict(spec['setup'])
        if parallel and len(spec['power']) > 1:
            spec['setup']['parallel'] = True
            spec['setup']['n_cpu'] = (pool or {}).get('n_cpu', 2)
        path = world.render(spec, d)
        log = ActionLog()
        O = dassh.orificing.Orificing
        orig_group = O._group
        orig_dist = O.distribute
        orig_regroup = O.regroup
        n_groups = orf['n_groups']
        state = {'iter': 0}

        def _group(obj, params):
            ids = [int(x) for x in params[:, 0]]
            gd = orig_group(obj, params)
            log.actions.append(('group', len(ids)))
            log.probe('c20.group_checked')
            vals = [float(x) for x in params[:, 1]]
            if len(set(vals)) < len(vals):
                log.probe('c20.ties')
            partition_check(log, '_group', ids, gd, n_groups, True)
            return gd

        def regroup(obj, data, verbose=False):
            ids = [int(x) for x in obj.group_data[:, 0]]
            before = obj.group_data[:, 2].copy()
            orig_regroup(obj, data, verbose)
            log.actions.append(('regroup', int(np.sum(
                before != obj.group_data[:, 2]))))
            log.probe('c20.regroup_checked')
            if np.any(before != obj.group_data[:, 2]):
                log.probe('c20.regroup_moved')
            partition_check(log, 'regroup', ids, obj.group_data, n_groups,
                            False)

        def distribute(obj, res_prev=None, t_out_prev=None):
            state['iter'] += 1
            label = f'distribute (iteration {state["iter"]})'
            m, tlim = orig_dist(obj, res_prev, t_out_prev)
            log.actions.append(('distribute', state['iter']))
            log.probe('c20.distribute_checked')
            gd = obj.group_data
            g = gd[:, 2].astype(int)
            # equal flow within a group
            for k in sorted(set(g)):
                mk = m[g == k]
                if np.any(mk != mk[0]):
                    log.vio('flow.equal_in_group', label,
                            f'group {k} flows {mk[:4]}', ['equal_flow'])
            # conservation: total recomputed by the harness
            t_in = float(obj.t_in)
            t_tg = float(orf['bulk_coolant_temp'])
            if res_prev is None:
                cp = float(obj.coolant._data['heat_capacity'](
                    t_in + 0.5 * (t_tg - t_in)))
                m_tot = float(np.sum(obj._power[:, 1])) / cp / (t_tg - t_in)
            else:
                first = res_prev[res_prev[:, 0] == res_prev[0, 0]]
                m_tot = float(np.sum(first[:, 3]))
            if t_out_prev is not None:
                # the bulk outlet temperature of the previous sweep(s) is
                # the flow-weighted mean over all assemblies and all time
                # points of the results handed in (recomputed here, not
                # taken from the optimiser's summary)
                if res_prev is not None:
                    t_bulk = float(np.sum(res_prev[:, 4] * res_prev[:, 3])
                                   / np.sum(res_prev[:, 3]))
                    log.probe('c20.bulk_outlet_checked')
                    if abs(float(t_out_prev) - t_bulk) > \
                            1e-9 * max(abs(t_bulk), 1.0):
                        log.vio('flow.conservation', label,
                                f'bulk outlet temperature used for the flow '
                                f'target {float(t_out_prev)!r} != '
                                f'flow-weighted mean {t_bulk!r} of the '
                                f'previous results '
                                f'({len(set(res_prev[:, 0]))} time points)',
                                ['conservation', 'bulk_outlet'])
                m_tot *= (float(t_out_prev) - t_in) / (t_tg - t_in)
            if abs(float(np.sum(m)) - m_tot) > 1e-9 * abs(m_tot):
                log.vio('flow.conservation', label,
                        f'distributed flows sum to {float(np.sum(m))!r} but '
                        f'the bulk outlet target requires {m_tot!r}',
                        ['conservation'])
            if not np.all(np.isfinite(m)):
                log.vio('flow.finite', label, f'non-finite flow {m[:6]}',
                        ['finite'])
            if np.any(m <= 0):
                # physically meaningless, but not part of the property as
                # stated (partition / equal flow / conservation / limit)
                log.probe('c20.nonpositive_flow_distributed')
            # type of every grouped assembly (rows of m are in assembly
            # id order), from the generated world and not from the
            # optimiser's own id/type table
            names = list(orf['assemblies_to_group'])
            own = np.array([names.index(p['type'])
                            for p in spec['positions']
                            if p and p['type'] in names])
            if own.shape[0] != np.shape(m)[0]:
                log.vio('flow.dp_limit', label,
                        f'{np.shape(m)[0]} flows for {own.shape[0]} '
                        f'assemblies to group', ['dp_limit', 'shape'])
                own = obj._parametric['asm_ids'][:, 1]
            elif not np.array_equal(own,
                                    obj._parametric['asm_ids'][:, 1]):
                log.probe('c20.type_table_differs')
            # pressure-drop limit
            lim = orf.get('pressure_drop_limit')
            if lim:
                for i, dat in enumerate(obj._parametric['data']):
                    mlim = float(np.interp(lim * 1e6, dat[:, 3][::-1],
                                           dat[:, 2][::-1]))
                    typ = own == i
                    over = m[typ] > mlim * (1 + 1e-9)
                    if np.any(over):
                        log.vio('flow.dp_limit', label,
                                f'flow {float(np.max(m[typ]))!r} exceeds the '
                                f'flow {mlim!r} that the parametric curve '
                                f'associates with the limit {lim} MPa',
                                ['dp_limit'])
                if np.any(obj._dp_limit):
                    log.probe('c20.dp_limit_binds')
            log.last_m = np.array(m, copy=True)
            log.last_groups = g.copy()
            log.types = np.array(own, copy=True)
            return m, tlim

        fs = simenv.SimFS(plan=fs_plan, clock_jumps=clock, pool_plan=pool)
        out = io.StringIO()
        outcome = 'ok'
        detail = ''
        O._group, O.distribute, O.regroup = _group, distribute, regroup
        try:
            with fs:
                try:
                    with contextlib.redirect_stdout(out), \
                            contextlib.redirect_stderr(out):
                        inp = dassh.DASSH_Input(path)
                        orifice = O(inp)
                        orifice.optimize()
                        log.param = [np.array(x, copy=True) for x in
                                     orifice._parametric['data']]
                        # history step: the same controller object is asked
                        # again after the limit was tightened (a limit study
                        # on one object); the wrapper above checks the flows
                        # against the limit now in force
                        if getattr(log, 'last_m', None) is not None \
                                and not log.violations:
                            try:
                                mx = float(np.max(log.last_m))
                                ti = int(log.types[int(np.argmax(log.last_m))])
                                dat = log.param[ti]
                                o = np.argsort(dat[:, 2])
                                lim2 = float(np.interp(0.8 * mx, dat[o, 2],
                                                       dat[o, 3])) / 1e6
                                if lim2 > 0:
                                    old_lim = orf.get('pressure_drop_limit')
                                    orf['pressure_drop_limit'] = lim2
                                    orifice.orifice_input[
                                        'pressure_drop_limit'] = lim2
                                    try:
                                        orifice.distribute()
                                        log.probe('c20.retightened')
                                    finally:
                                        if old_lim is None:
                                            orf.pop('pressure_drop_limit',
                                                    None)
                                        else:
                                            orf['pressure_drop_limit'] = \
                                                old_lim
                            except (Exception, SystemExit) as ex:
                                log.probe('c20.retighten_'
                                          + type(ex).__name__)
                except SystemExit:
                    outcome = 'exit'
                except simenv.SimDeadlock as e:
                    outcome, detail = 'deadlock', str(e)
                except Exception as e:
                    c = sim.Crashed(e)
                    outcome = 'crash'
                    detail = f'{c.etype}@{c.site}: {str(e)[:140]}'
        finally:
            O._group, O.distribute, O.regroup = \
                orig_group, orig_dist, orig_regroup
            dassh.logged_class.shutdown_logger('dassh')
            sim.quiet_logging()
        log.outcome = outcome
        log.detail = detail
        log.fs = fs
        return log

    def run_case(self, case):
        sim.quiet_logging()
        spec = case['spec']
        res = {'violations': [], 'probes': {}, 'fired': {},
               'features': world.features(spec) + (
                   f'g{case["orificing"]["n_groups"]}',
                   case['orificing']['regroup']),
               'executions': 0, 'ticks': 0, 'length_m': 0.0}

        def merge(log):
            res['violations'].extend(log.violations)
            for k, v in log.probes.items():
                res['probes'][k] = res['probes'].get(k, 0) + v
            for k, v in log.fs.fired.items():
                res['fired'][k] = res['fired'].get(k, 0) + v
            res['executions'] += 1

        with sim.scratch_dir() as d:
            log1 = self._optimize(case, d)
        merge(log1)
        res['probes']['c20.outcome_' + log1.outcome] = 1
        if log1.outcome == 'ok':
            res['probes']['c20.completed'] = 1
        dp = None
        if case.get('dp_limit_frac') and getattr(log1, 'param', None):
            pmax = max(float(np.max(x[:, 3])) for x in log1.param)
            pmin = min(float(np.min(x[:, 3])) for x in log1.param)
            dp = world._r((pmin + case['dp_limit_frac'] * (pmax - pmin))
                          / 1e6, 6)
            with sim.scratch_dir() as d:
                log2 = self._optimize(case, d, dp_limit=dp)
            merge(log2)
            res['probes']['c20.dp_run'] = 1
        # adversarial limit: between the pressure drops that the flow of the
        # last (remainder) group means for its different assembly types
        if log1.outcome == 'ok' and getattr(log1, 'param', None) \
                and len(log1.param) > 1 and hasattr(log1, 'last_m') \
                and not res['violations']:
            # candidate groups: the remainder group first, then up to two
            # others (seeded choice), each holding more than one true type
            gs = sorted(set(int(x) for x in log1.last_groups), reverse=True)
            mixed = [k for k in gs if len(set(
                int(t) for t in log1.types[log1.last_groups == k])) > 1]
            ga = np.random.Generator(np.random.PCG64(
                rng.h64('c20.adversarial', case['seed'])))
            rest = [k for k in mixed if k != gs[0]]
            pick = [k for k in mixed if k == gs[0]] + \
                [rest[i] for i in ga.permutation(len(rest))[:2]]
            for gk in pick:
                if res['violations']:
                    break
                sel = log1.last_groups == gk
                types = set(int(t) for t in log1.types[sel])
                m_k = float(log1.last_m[sel][0])
                dps = []
                for t in sorted(types):
                    dat = log1.param[t]
                    o = np.argsort(dat[:, 2])
                    dps.append(float(np.interp(m_k, dat[o, 2], dat[o, 3])))
                if max(dps) > 1.02 * min(dps) and min(dps) > 0:
                    dp2 = world._r(0.5 * (max(dps) + min(dps)) / 1e6, 8)
                    with sim.scratch_dir() as d:
                        log4 = self._optimize(case, d, dp_limit=dp2)
                    merge(log4)
                    res['probes']['c20.adversarial_dp_run'] = \
                        res['probes'].get('c20.adversarial_dp_run', 0) + 1
        # second execution under ambient faults: same distribution
        if log1.outcome == 'ok' and not res['violations'] \
                and hasattr(log1, 'last_m'):
            pl = case['plan']
            ld = pl['listdir']
            with sim.scratch_dir() as d:
                log3 = self._optimize(
                    case, d,
                    fs_plan=simenv.FsPlan(listdir=tuple(ld)
                                          if isinstance(ld, list) else ld),
                    pool=pl['pool'], clock=pl['clock'], parallel=True)
            merge(log3)
            res['probes']['c20.second_run'] = 1
            # The invariants of C20 are asserted inside the second execution
            # by the same wrappers (merged above). Whether the two executions
            # end with the same numbers is NOT part of C20: the optimiser
            # stacks the time-point results in os.listdir order, which moves
            # the flows by ~1e-9 relative (summation order) - counted only.
            if log3.outcome != 'ok':
                res['probes']['c20.ambient_outcome_differs'] = 1
            elif not (log1.last_m.shape == log3.last_m.shape
                      and np.array_equal(log1.last_m, log3.last_m)
                      and np.array_equal(log1.last_groups,
                                         log3.last_groups)):
                res['probes']['c20.ambient_numbers_differ'] = 1
        res['nontrivial'] = res['probes'].get('c20.distribute_checked', 0) > 0
        res['sched_digest'] = rng.h64(repr(case['orificing']),
                                      repr(case['plan']),
                                      repr(case.get('dp_limit_frac')))
        res['hist_digest'] = str(rng.h64(repr(log1.actions)))
        res['sample'] = {'seed': case['seed'],
                         'orificing': case['orificing'],
                         'actions': log1.actions[:12],
                         'outcome': log1.outcome,
                         'dp_limit_MPa': dp,
                         'n_asm': sum(1 for p in spec['positions'] if p),
                         'timepoints': len(spec['power'])}
        return res

    def shrink_candidates(self, case):
        o = case['orificing']
        for k in ('group_cutoff', 'group_cutoff_delta', 'regroup_option_tol',
                  'regroup_improvement_tol'):
            if k in o:
                c = copy.deepcopy(case)
                del c['orificing'][k]
                yield c
        if o['iteration_limit'] > 1:
            c = copy.deepcopy(case)
            c['orificing']['iteration_limit'] = 1
            yield c
        if o['regroup'] != 'never':
            c = copy.deepcopy(case)
            c['orificing']['regroup'] = 'never'
            yield c
        for spec in spec_shrinks(case['spec']):
            c = copy.deepcopy(case)
            c['spec'] = spec
            names = [t['name'] for t in spec['types']]
            c['orificing']['assemblies_to_group'] = [
                n for n in o['assemblies_to_group'] if n in names]
            if not c['orificing']['assemblies_to_group']:
                continue
            yield c


PROP = C20()
