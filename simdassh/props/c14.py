"""C14 - pressure drop is non-negative, additive and step-size independent."""
import copy
import numpy as np

from .. import sim, rng, oracles, world
from .sweep import SweepProp, place_ticks, event_heights


class C14(SweepProp):
    id = 'C14'
    level = 'exploration'
    rule = ('one case = one generated world with spacer grids (0..3 per bundle, '
            'loss coefficient or REH/CDD correlation), gravity on/off, '
            'multi-region assemblies, swept on two seeded tick schedules: planes '
            'exactly on grid positions (incl. dyadic grid/step coordinates so '
            'that z-dz is exact), a hair before/after them, and a different step '
            'size; oracle = closed forms per region and component, exactly-once '
            'grid increments in the history, equality of the two schedules. '
            'non-trivial = completed pair of sweeps; distinct = distinct (world '
            'class, tick plan digest)')
    stub = ['tick placement via axial_plane / axial_mesh_size',
            'per-tick assembly-update order']
    assumptions = ['closed forms are asserted in constant-property worlds only',
                   'user-power inputs only']
    profile = {'spacer_prob': 0.7, 'gravity_prob': 0.5, 'const_prob': 0.75,
               'n_ring_core': [1, 1, 2], 'axial_region_prob': 0.5,
               'length': (0.1, 0.4), 'lowfi_prob': 0.1,
               'gap_models': ['none', 'none', 'flow', 'no_flow'],
               'vel': (0.5, 8.0), 'low_flow_prob': 0.05,
               'grid_on_bound_prob': 0.3, 'cdd_coeff_prob': 0.5}
    tick_kinds = ('region', 'power', 'grid')

    def budget(self, tier):
        if tier == 'quick':
            return {'runs': 700, 'wall_s': 70, 'per_run_timeout': 200,
                    'shrink_s': 60,
                    'require_probes': ['c14.grid_checked',
                                       'c14.closed_form_checked',
                                       'c14.grid_on_plane_world',
                                       'c14.step_twin',
                                       'c14.reclone_checked'],
                    'min_evaluated': 80}
        return {'runs': 40000, 'wall_s': 1000, 'per_run_timeout': 600,
                'shrink_s': 300,
                'require_probes': ['c14.grid_checked',
                                   'c14.closed_form_checked',
                                   'c14.grid_on_plane_world',
                                   'c14.step_twin', 'c14.dyadic_world',
                                   'c14.reclone_checked'],
                'min_evaluated': 1500}

    def extend_case(self, case, S, tier):
        g = S('dyadic')
        spec = case['spec']
        # dyadic worlds: step 2^-k and grid positions on multiples of it, so
        # that every plane coordinate and z - dz are exact in binary
        if rng.chance(g, 0.3):
            k = int(g.integers(6, 9))
            dz = 2.0 ** -k
            L = spec['core']['length']
            moved = False
            for t in spec['types']:
                if t.get('spacer'):
                    zlo, zhi = world.rod_bounds(t, L)
                    zs = []
                    for z in t['spacer']['axial_positions']:
                        zz = round(z / dz) * dz
                        if zlo + dz <= zz <= zhi - dz:
                            zs.append(zz)
                    if zs:
                        t['spacer']['axial_positions'] = sorted(set(zs))
                        moved = True
            if moved:
                spec['setup']['axial_mesh_size'] = dz
                spec['axial_plane'] = [z for z in spec['axial_plane']
                                       if rng.chance(g, 0.3)]
                case['dyadic'] = True
        case['twin_factor'] = float(rng.choice(g, [0.5, 0.37, 0.71]))

    def monitors(self, case, spec):
        self._mon = oracles.PressureC14(spec, bool(spec.get('const')))
        return [self._mon]

    def after(self, case, e, res, d):
        spec = case['spec']
        mon = e.S.monitors[0]
        ev = event_heights(spec)
        zp = set(float(z) for z in e.r.z)
        if any(float(np.around(z, 12)) in zp for z in ev['grid']):
            res['probes']['c14.grid_on_plane_world'] = 1
        if case.get('dyadic'):
            res['probes']['c14.dyadic_world'] = 1
        if not spec.get('const') or res['violations']:
            return
        # history independence of the loss coefficient: the same design at
        # another flow rate, cloned from an assembly that has already been
        # set up and swept (what a flow study or an orificing-type loop does
        # through the public clone()), then set up the way Reactor sets up
        # every assembly: the coefficient in use is the correlation at the
        # clone's own Reynolds number (or the value given in the input)
        for a in e.r.assemblies:
            rg0 = getattr(a, 'rodded', None) if a.has_rodded else None
            if rg0 is None or 'grid' not in rg0.corr_constants:
                continue
            tsp = [t for t in spec['types'] if t['name'] == a.name]
            sp = tsp[0].get('spacer') if tsp else None
            try:
                c = a.clone(a.loc, new_flowrate=float(a.flow_rate)
                            * case['twin_factor'])
                t_avg = (float(e.r.inlet_temp)
                         + float(a._estimated_T_out)) / 2
                for reg in c.region:
                    reg._init_static_correlated_params(t_avg)
                rg = c.rodded
                K = float(rg.coolant_int_params['grid_loss_coeff'])
                if sp and 'loss_coeff' in sp:
                    Kx = float(sp['loss_coeff'])
                else:
                    cc = rg.corr_constants['grid']
                    Kx = float(rg.corr['grid'](
                        rg.coolant_int_params['Re'], cc['solidity'],
                        cc['corr_coeff']))
            except (Exception, SystemExit) as ex:  # not a verdict
                res['probes']['c14.reclone_' + type(ex).__name__] = 1
                continue
            res['probes']['c14.reclone_checked'] = 1
            if abs(K - Kx) > 1e-9 * max(abs(Kx), 1e-300):
                res['violations'].append(sim.Violation(
                    'dp.grid_loss_coeff', f'asm{a.id} clone at '
                    f'{case["twin_factor"]} of the flow',
                    f'clone of the set-up assembly uses loss coefficient '
                    f'{K!r}, the correlation at its Reynolds number gives '
                    f'{Kx!r}', {'grid_loss_coeff', 'reclone'}).to_json())
                return
        # step-size independence: same world, different tick schedule
        s2 = copy.deepcopy(spec)
        s2['setup'] = dict(s2['setup'])
        s2['setup']['axial_mesh_size'] = float(e.r.req_dz) * case['twin_factor']
        s2['axial_plane'] = []
        m2 = oracles.PressureC14(s2, True)
        with sim.scratch_dir() as d2:
            e2 = sim.execute(s2, d2, monitors=[m2],
                             max_ticks=3 * self.max_ticks + 50)
        if e2.status != 'ok':
            res['probes']['c14.step_twin_' + e2.reason.split(':')[0]] = 1
            return
        res['executions'] += 1
        res['probes']['c14.step_twin'] = 1
        for v in e2.S.violations:
            vv = v.to_json()
            vv['features'] = sorted(set(vv['features']) | {'step_twin'})
            res['violations'].append(vv)
        if res['violations']:
            return
        for aid, (tot, comp) in mon.final.items():
            tot2, comp2 = m2.final[aid]
            for k in comp:
                a, b = comp[k], comp2[k]
                if abs(a - b) > 1e-9 * max(abs(a), abs(b), 1e-300):
                    res['violations'].append(sim.Violation(
                        'dp.step_independence', f'asm{aid} {k}',
                        f'{a!r} with dz={float(e.r.req_dz)!r} but {b!r} with '
                        f'dz={float(e2.r.req_dz)!r}',
                        {'step_independence', k}).to_json())
                    return


PROP = C14()
