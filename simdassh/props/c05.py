"""C05 - the axial mesh is finite, monotone, exact on boundaries and within
the stability limit; mesh construction terminates or fails with an error.

Two drivers:
 (a) full Reactor(...) construction on generated worlds whose region,
     power-cell and requested planes are nearly coincident, whose step
     requirement ranges from sub-micrometre to centimetres, and whose
     axial_mesh_size lies on either side of the limit;
 (b) the real Reactor._setup_axial_region_bnds / _setup_overall_axial_mesh_req
     / _setup_zpts / _check_dz methods on a bare Reactor instance populated
     directly with drawn boundary lists, requirements and options (volume).
Liveness is decided with a deterministic call budget on _check_dz, never with
a wall clock.
"""
import copy
import math
import types
import numpy as np

import dassh
from .. import world, sim, rng
from . import Prop, spec_shrinks


def check_mesh(z, dz, bnds, req_floor, user, L_expected, where, out, feats):
    """Invariants of a finished mesh"""
    def vio(oracle, detail, extra=()):
        out.append(sim.Violation(oracle, where, detail,
                                 set(feats) | set(extra)).to_json())
    z = np.asarray(z, dtype=float)
    dz = np.asarray(dz, dtype=float)
    if z.size < 2:
        vio('mesh.empty', f'{z.size} planes')
        return
    if z[0] != 0.0:
        vio('mesh.start', f'z[0]={z[0]!r}')
    if z[-1] != L_expected:
        vio('mesh.end', f'z[-1]={z[-1]!r} != core length {L_expected!r}')
    d = np.diff(z)
    if not np.all(d > 0):
        i = int(np.argmin(d))
        vio('mesh.monotone', f'z[{i}]={z[i]!r} z[{i + 1}]={z[i + 1]!r}')
    if dz.size != z.size - 1 or np.max(np.abs(d - dz)) > 1e-12:
        vio('mesh.dz_consistent', 'dz is not the difference of the planes')
    zs = set(float(x) for x in z)
    miss = [float(b) for b in bnds if float(np.around(b, 12)) not in zs]
    if miss:
        vio('mesh.boundary_is_plane', f'boundaries {miss[:4]} are not planes',
            ['boundary'])
    # stability: no step above the smallest requirement
    lim = req_floor['min']
    if np.max(dz) > lim * (1 + 1e-12):
        vio('mesh.limit', f'max step {np.max(dz)!r} exceeds the smallest '
            f'requirement {lim!r}', ['limit'])
    # user step honoured iff not above the (floored) requirement
    fl = req_floor['floor']
    if user is not None:
        if user <= fl:
            if np.max(dz) > user * (1 + 1e-12):
                vio('mesh.user_step_ignored',
                    f'requested step {user!r} <= limit {fl!r} but max step is '
                    f'{np.max(dz)!r}', ['user_step'])
            # honoured: some step equals the request unless every interval
            # between boundaries is shorter than it
            gaps = np.diff(np.unique(np.around(list(bnds) + [0.0], 12)))
            if np.max(gaps) >= user * (1 + 1e-9) and \
                    not np.any(np.abs(dz - user) <= 1e-12):
                vio('mesh.user_step_not_used',
                    f'requested step {user!r} is admissible but no step '
                    f'equals it (max {np.max(dz)!r})', ['user_step'])
        else:
            if np.max(dz) > min(fl, 0.01) * (1 + 1e-12) + 1e-15:
                vio('mesh.user_step_above_limit',
                    f'requested step {user!r} > limit {fl!r} must be ignored; '
                    f'max step {np.max(dz)!r}', ['user_step'])


class CallBudget(object):
    """Deterministic stand-in for 'never hangs': bound on _check_dz calls"""

    def __init__(self):
        self.calls = 0
        self.limit = None

    def install(self, R):
        self.R = R
        self.orig = R._check_dz
        self.orig_zpts = R._setup_zpts
        me = self

        def check_dz(rx, z):
            me.calls += 1
            if me.limit is not None and me.calls > me.limit:
                raise sim.BudgetExceeded('reactor.py:_check_dz')
            return me.orig(rx, z)

        def setup_zpts(rx):
            me.calls = 0
            L = float(rx.core_length)
            req = float(rx.req_dz)
            nb = len(rx.axial_bnds)
            if not (req > 0):
                # the march cannot advance: budget of a trivial mesh
                me.limit = 10 * nb + 1000
            else:
                me.limit = int(math.ceil(L / req)) + 2 * nb + 10
            me.req_at_start = req
            return me.orig_zpts(rx)

        R._check_dz = check_dz
        R._setup_zpts = setup_zpts

    def remove(self):
        self.R._check_dz = self.orig
        self.R._setup_zpts = self.orig_zpts


PROFILE = {
    'n_ring_core': [1, 1, 2],
    'gap_models': ['flow', 'flow', 'none', 'no_flow'],
    'bypass_fraction': (1e-6, 0.2),
    'low_flow_prob': 0.5,
    'vel': (0.05, 8.0),
    'length': (0.05, 0.6),
    'axial_region_prob': 0.6,
    'misalign_prob': 0.3,
    'n_pcell': [1, 2, 3, 4, 5],
    'mesh_size_prob': 0.0,
    'conv_approx_prob': 0.3,
    'pinmodel_prob': 0.0,
}


def near(g, z, L):
    off = rng.choice(g, [0.0, 1e-13, 3e-13, 1e-12, 2e-12, 1e-11, 1e-9,
                          1e-7, 1e-6])
    zz = z + rng.choice(g, [-1.0, 1.0]) * off
    return min(max(zz, 0.0), L)


class C05(Prop):
    id = 'C05'
    level = 'exploration'
    rule = ('two kinds of cases: (a) full Reactor construction on a generated '
            'world (core length, region/power/requested planes drawn nearly '
            'coincident with offsets 0, 1e-13..1e-6, gap flow fractions down '
            'to 1e-6, very low assembly flows, conv_approx) built twice: '
            'without a user step and with axial_mesh_size drawn on either side '
            'of the limit found; (b) the real mesh methods on a bare Reactor '
            'populated with drawn boundary lists (m and cm lists with '
            'unit-conversion residues), requirements from 1e-7 m to cm and '
            'user steps. Liveness = bounded number of _check_dz calls. '
            'non-trivial = a mesh was produced or an error verdict was '
            'reached; distinct = distinct case digest')
    stub = ['(b): everything except the four mesh methods of Reactor is '
            'stubbed by direct population of the attributes they read']
    assumptions = [
        'a hang is reported deterministically as a budget of '
        'ceil(L/req)+2*#bounds+10 calls of Reactor._check_dz',
        'worlds whose mesh would need more than the plane cap are not '
        'executed in driver (a) (counted as discards); driver (b) covers '
        'fine meshes down to 1e-7 m on short cores']

    def budget(self, tier):
        if tier == 'quick':
            return {'runs': 3000, 'wall_s': 60, 'per_run_timeout': 300,
                    'shrink_s': 60, 'min_evaluated': 500,
                    'require_probes': ['c05.full_world', 'c05.bare',
                                       'c05.user_below', 'c05.user_above',
                                       'c05.near_coincident']}
        return {'runs': 120000, 'wall_s': 1000, 'per_run_timeout': 900,
                'shrink_s': 300, 'min_evaluated': 3000,
                'require_probes': ['c05.full_world', 'c05.bare',
                                   'c05.user_below', 'c05.user_above',
                                   'c05.near_coincident', 'c05.fine_mesh']}

    # -- cases ---------------------------------------------------------------
    def make_case(self, seed, tier):
        S = rng.Streams(seed)
        g = S('kind')
        if rng.chance(g, 0.12 if tier == 'quick' else 0.2):
            return self._full_case(seed, S, tier)
        return self._bare_case(seed, S, tier)

    def _full_case(self, seed, S, tier):
        spec = world.gen(seed, PROFILE)
        g = S('ticks')
        L = spec['core']['length']
        # nearly coincident requested planes
        from .sweep import event_heights
        ev = event_heights(spec)
        planes = []
        for kind in ('region', 'power'):
            for z in ev[kind]:
                if rng.chance(g, 0.6):
                    planes.append(near(g, z, L))
        for _ in range(int(g.integers(0, 4))):
            planes.append(float(g.uniform(0, 1)) * L)
        if rng.chance(g, 0.3):
            planes.append(near(g, L, L))
        ga = S('above')
        if rng.chance(ga, 0.35):
            # a requested plane a hair (or a lot) above the outlet: the
            # reader must drop it, the mesh still ends exactly at L
            planes.append(L + float(rng.choice(
                ga, [1e-13, 1e-12, 1e-11, 1e-9, 1e-8, 1e-7, 2e-7, 4e-7, 1e-6,
                     1e-3, 0.5 * L])))
        spec['axial_plane'] = sorted(set(planes))
        return {'property': 'C05', 'seed': int(seed), 'kind': 'full',
                'spec': spec,
                'user_factor': float(rng.choice(
                    g, [0.25, 0.5, 0.999999, 1.0, 1.000001, 1.5, 4.0]))}

    def _bare_case(self, seed, S, tier):
        g = S('bare')
        L = world._r(rng.loguniform(g, 0.02, 1.0), 4)
        # requirement from 1e-7 m to cm; keep the plane count bounded
        gi = S('inch')
        if rng.chance(gi, 0.3):
            # a core length given in inches: the converted value carries a
            # float residue below the 1e-12 m rounding of the mesh planes
            L = float(int(gi.integers(2, 80)) * 0.5 * 2.54 / 100)
        cap = 4e4 if tier == 'quick' else 3e5
        lo = max(1e-7, L / cap)
        n_req = int(g.integers(1, 6))
        reqs = [rng.loguniform(g, lo, 0.05) for _ in range(n_req)]
        if rng.chance(g, 0.15):
            reqs.append(rng.loguniform(g, lo, 4 * lo))
        # boundaries: regions (m), power cells (cm, float residue of the
        # m->cm->m conversion), requested planes (m)
        regs = []
        n_asm = int(g.integers(1, 4))
        base = sorted(set(world._r(g.uniform(0.05, 0.95) * L, 4)
                          for _ in range(int(g.integers(0, 4)))))
        for a in range(n_asm):
            zb = [0.0] + [near(g, z, L) if rng.chance(g, 0.5) else z
                          for z in base if rng.chance(g, 0.7)] + [L]
            zb = sorted(set(zb))
            regs.append(zb)
        power = []
        for a in range(n_asm):
            zc = [0.0] + [near(g, z, L) if rng.chance(g, 0.5) else
                          world._r(g.uniform(0.05, 0.95) * L, 4)
                          for z in (base if rng.chance(g, 0.7) else [])] + [L]
            if rng.chance(g, 0.5):
                zc += [world._r(g.uniform(0.05, 0.95) * L, 5)]
            zc = sorted(set(zc))
            power.append([z * 100.0 for z in zc])       # cm, as _from_file
        planes = [near(g, z, L) for z in base if rng.chance(g, 0.5)]
        planes += [float(g.uniform(0, 1)) * L
                   for _ in range(int(g.integers(0, 4)))]
        fl = math.floor(min(reqs) * 1e6) / 1e6
        user = None
        u = g.random()
        if u < 0.3 and fl > 0:
            user = float(fl * rng.choice(g, [0.1, 0.5, 0.9, 0.999999, 1.0]))
        elif u < 0.55:
            user = float(max(fl, 1e-6) * rng.choice(
                g, [1.0000001, 1.5, 3.0, 50.0]))
        return {'property': 'C05', 'seed': int(seed), 'kind': 'bare',
                'L': L, 'reqs': reqs, 'regs': regs, 'power_cm': power,
                'planes': sorted(set(planes)), 'user': user}

    # -- execution -----------------------------------------------------------
    def run_case(self, case):
        sim.quiet_logging()
        if case['kind'] == 'bare':
            return self._run_bare(case)
        return self._run_full(case)

    def _run_bare(self, case):
        R = dassh.reactor.Reactor
        res = {'violations': [], 'probes': {'c05.bare': 1}, 'fired': {},
               'features': ('bare', len(case['regs']),
                            'user' if case['user'] is not None else 'nouser'),
               'executions': 1}
        r = R.__new__(R)
        dassh.logged_class.LoggedClass.__init__(r, 0, 'dassh.reactor.Reactor')
        r._options = {'axial_plane': list(case['planes']) or None,
                      'axial_mesh_size': case['user']}
        r.power = {'user': [(a + 1, {'zfm': np.array(zc)})
                            for a, zc in enumerate(case['power_cm'])]}
        asm = {}
        for a, zb in enumerate(case['regs']):
            regs = {}
            for i in range(len(zb) - 1):
                regs[f'r{i}'] = {'z_lo': zb[i], 'z_hi': zb[i + 1]}
            asm[f'a{a}'] = {'AxialRegion': regs}
        inp = types.SimpleNamespace(data={'Assembly': asm,
                                          'Core': {'length': case['L']}})
        r.min_dz = {'dz': list(case['reqs']),
                    'sc': ['x'] * len(case['reqs'])}
        cb = CallBudget()
        cb.install(R)
        feats = {'bare'}
        L = case['L']
        try:
            r._setup_axial_region_bnds(inp)
            try:
                r._setup_overall_axial_mesh_req()
            except SystemExit:
                res['probes']['c05.error_verdict'] = 1
                res['nontrivial'] = True
                return self._fin(res, case)
            all_b = list(r.axial_bnds)
            d = np.diff(np.asarray(all_b))
            if d.size and np.min(d) < 1e-6:
                res['probes']['c05.near_coincident'] = 1
            if case['user'] is not None:
                fl = math.floor(min(case['reqs']) * 1e6) / 1e6
                res['probes']['c05.user_below' if case['user'] <= fl
                              else 'c05.user_above'] = 1
            try:
                z, dz = r._setup_zpts()
            except SystemExit:
                res['probes']['c05.error_verdict'] = 1
                res['nontrivial'] = True
                return self._fin(res, case)
            if len(z) > 20000:
                res['probes']['c05.fine_mesh'] = 1
            fl = math.floor(min(case['reqs']) * 1e6) / 1e6
            check_mesh(z, dz, all_b, {'min': min(case['reqs']), 'floor': fl},
                       case['user'], float(np.around(max(all_b), 12)),
                       'bare mesh', res['violations'], feats)
            res['ticks'] = len(dz)
            res['length_m'] = float(L)
        except sim.BudgetExceeded as b:
            f = set(feats) | {'hang'}
            if not (cb.req_at_start > 0):
                f.add('requirement_floored_to_zero')
            res['violations'].append(sim.Violation(
                'mesh.liveness', b.where,
                f'mesh construction exceeded its budget of {cb.limit} calls '
                f'(req_dz={cb.req_at_start!r}, L={L!r})', f).to_json())
        finally:
            cb.remove()
        res['nontrivial'] = True
        return self._fin(res, case)

    def _fin(self, res, case):
        res['sched_digest'] = rng.h64(repr(sorted(
            (k, repr(v)) for k, v in case.items() if k != 'spec')),
            repr(case.get('spec', {}).get('axial_plane')))
        res['hist_digest'] = str(res['sched_digest'])
        res['sample'] = {k: v for k, v in case.items() if k != 'spec'}
        if 'spec' in case:
            res['sample']['axial_plane'] = case['spec']['axial_plane'][:8]
            res['sample']['core'] = case['spec']['core']
        return res

    def _build(self, spec, d, cb):
        """returns ('ok', r) | ('rejected'|'crash'|'hang', info)"""
        try:
            inp, r = sim.build_reactor(spec, d)
            return 'ok', r
        except sim.Rejected:
            return 'rejected', None
        except sim.Crashed as c:
            return 'crash', f'{c.etype}@{c.site}'
        except sim.BudgetExceeded as b:
            return 'hang', b.where

    def _run_full(self, case):
        R = dassh.reactor.Reactor
        spec = case['spec']
        res = {'violations': [], 'probes': {'c05.full_world': 1},
               'fired': {}, 'features': world.features(spec),
               'executions': 0}
        cap = 60000
        cb = CallBudget()
        # plane cap: decide before marching whether the mesh is affordable
        orig_req = R._setup_overall_axial_mesh_req

        class TooFine(BaseException):
            pass

        def over_req(rx):
            orig_req(rx)
            if rx.req_dz > 0 and rx.core_length / rx.req_dz > cap:
                raise TooFine()

        cb.install(R)
        R._setup_overall_axial_mesh_req = over_req
        feats = {'full'}
        try:
            with sim.scratch_dir() as d:
                try:
                    st, r = self._build(spec, d, cb)
                except TooFine:
                    return {'status': 'discard', 'reason': 'mesh_too_fine',
                            'violations': []}
                res['executions'] += 1
                if st == 'hang':
                    f = set(feats) | {'hang'}
                    if not (cb.req_at_start > 0):
                        f.add('requirement_floored_to_zero')
                    res['violations'].append(sim.Violation(
                        'mesh.liveness', r,
                        f'mesh construction exceeded its budget of '
                        f'{cb.limit} calls (req_dz={cb.req_at_start!r})',
                        f).to_json())
                    res['nontrivial'] = True
                    return self._fin(res, case)
                if st != 'ok':
                    return {'status': 'discard', 'reason': st,
                            'violations': []}
                self._check_reactor(r, spec, None, res, feats)
                fl = math.floor(float(np.min(r.min_dz['dz'])) * 1e6) / 1e6
                res['ticks'] = len(r.dz)
                res['length_m'] = float(r.core_length)
                d0 = np.diff(r.axial_bnds)
                if d0.size and np.min(d0) < 1e-6:
                    res['probes']['c05.near_coincident'] = 1
            # second build with a user step on either side of the limit
            if fl > 0 and not res['violations']:
                user = float(fl * case['user_factor'])
                s2 = copy.deepcopy(spec)
                s2['setup'] = dict(s2['setup'])
                s2['setup']['axial_mesh_size'] = user
                with sim.scratch_dir() as d:
                    try:
                        st, r2 = self._build(s2, d, cb)
                    except TooFine:
                        st = 'toofine'
                res['executions'] += 1
                if st == 'ok':
                    res['probes']['c05.user_below' if user <= fl
                                  else 'c05.user_above'] = 1
                    self._check_reactor(r2, s2, user, res, feats)
                elif st == 'hang':
                    res['violations'].append(sim.Violation(
                        'mesh.liveness', r2, f'budget of {cb.limit} calls '
                        f'exceeded with axial_mesh_size={user!r}',
                        set(feats) | {'hang', 'user_step'}).to_json())
        finally:
            cb.remove()
            R._setup_overall_axial_mesh_req = orig_req
        res['nontrivial'] = True
        return self._fin(res, case)

    def _check_reactor(self, r, spec, user, res, feats):
        L = spec['core']['length']
        bnds = list(r.axial_bnds)
        # independent list of what must be a plane
        must = [0.0, L]
        for t in spec['types']:
            for rg in t.get('axial_regions', []):
                must += [rg['z_lo'], rg['z_hi']]
        for pw in spec['power'][:1]:
            for k, pa in pw.items():
                if spec['positions'][int(k) - 1] is not None:
                    must += list(pa['zb'])
        must += [z for z in spec.get('axial_plane', []) if 0.0 <= z <= L]
        fl = math.floor(float(np.min(r.min_dz['dz'])) * 1e6) / 1e6
        check_mesh(r.z, r.dz, must,
                   {'min': float(np.min(r.min_dz['dz'])), 'floor': fl},
                   user, float(np.around(L, 12)), 'Reactor mesh',
                   res['violations'], feats)

    def shrink_candidates(self, case):
        if case['kind'] == 'full':
            for spec in spec_shrinks(case['spec']):
                c = copy.deepcopy(case)
                c['spec'] = spec
                yield c
            return
        for key in ('planes', 'reqs'):
            if len(case[key]) > 1:
                for i in range(len(case[key])):
                    c = copy.deepcopy(case)
                    del c[key][i]
                    yield c
        if case['planes']:
            c = copy.deepcopy(case)
            c['planes'] = []
            yield c
        if len(case['regs']) > 1:
            for i in range(len(case['regs'])):
                c = copy.deepcopy(case)
                del c['regs'][i]
                del c['power_cm'][i]
                yield c
        for key in ('regs', 'power_cm'):
            for a in range(len(case[key])):
                if len(case[key][a]) > 2:
                    for i in range(1, len(case[key][a]) - 1):
                        c = copy.deepcopy(case)
                        del c[key][a][i]
                        yield c
        if case['user'] is not None:
            c = copy.deepcopy(case)
            c['user'] = None
            yield c


PROP = C05()
