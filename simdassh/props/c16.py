"""C16 - runs are repeatable: set-up never mutates the input; serial = parallel
= one at a time; a crashed earlier execution does not change the next one.

Run A  construction histories on one DASSH_Input object
Run B  process schedules of the time points (serial / SimPool / single points)
Run C  crash (I/O event or tick) or I/O error, then restart in the dirty
       directory; outputs must equal those of a clean execution
Run D  ambient nondeterminism (listing order, wall-clock jumps)
"""
import contextlib
import copy
import hashlib
import io
import os
import pickle
import re
import sys

import numpy as np

import dassh
from .. import world, sim, rng, simenv
from . import Prop, spec_shrinks

PROFILE = {
    'n_ring_core': [1, 1, 2],
    'rings': [2, 2, 3],
    'gap_models': ['flow', 'none', 'no_flow', 'duct_average'],
    'pinmodel_prob': 0.55,
    'axial_region_prob': 0.4,
    'lowfi_prob': 0.1,
    'timepoints': [1, 2, 2, 3, 4],
    'length': (0.05, 0.15),
    'vel': (0.8, 8.0),
    'low_flow_prob': 0.0,
    'const_prob': 0.3,
    'dT': (5.0, 40.0),
    'hetero_power': True,
    'total_power_prob': 0.3,
    'conv_approx_prob': 0.1,
}

_DUMP_KEYS = ['coolant', 'duct', 'pins', 'gap', 'gap_fine', 'average',
              'maximum', 'pressure_drop']


# ----------------------------------------------------------------------
# snapshots and digests
# ----------------------------------------------------------------------

def snap(obj, depth=0):
    """Canonical, comparable structure of an input data tree.  Material
    objects are represented by their definition (name + property functions),
    not by the temperature they were last evaluated at."""
    if depth > 12:
        return '<deep>'
    if isinstance(obj, dict):
        return ('dict', tuple((str(k), snap(v, depth + 1))
                              for k, v in sorted(obj.items(),
                                                 key=lambda kv: str(kv[0]))))
    if isinstance(obj, (list, tuple)):
        return (type(obj).__name__, tuple(snap(v, depth + 1) for v in obj))
    if isinstance(obj, np.ndarray):
        return ('ndarray', obj.shape, obj.dtype.str,
                hashlib.sha256(np.ascontiguousarray(obj).tobytes()
                               ).hexdigest()[:16])
    if isinstance(obj, dassh.Material):
        d = []
        for k in sorted(obj._data):
            f = obj._data[k]
            if hasattr(f, 'coeffs'):
                d.append((k, 'poly', tuple(float(c) for c in
                                           np.atleast_1d(f.coeffs))))
            else:
                d.append((k, 'interp', snap(f.x), snap(f.y)))
        return ('Material', obj.name, tuple(d))
    if isinstance(obj, (float, np.floating)):
        return ('f', repr(float(obj)))
    if isinstance(obj, (int, np.integer, bool, str, type(None))):
        return (type(obj).__name__, obj)
    if hasattr(obj, 'closed') and hasattr(obj, 'write'):
        return ('FILE', getattr(obj, 'name', '?'))
    return ('obj', type(obj).__name__)


def diff_snap(a, b, path=''):
    """first difference between two snapshots (human readable)"""
    if a == b:
        return None
    if isinstance(a, tuple) and isinstance(b, tuple) and a and b \
            and a[0] == b[0] == 'dict':
        da, db = dict(a[1]), dict(b[1])
        for k in sorted(set(da) | set(db)):
            if k not in da:
                return f'{path}/{k}: key added ({str(db[k])[:80]})'
            if k not in db:
                return f'{path}/{k}: key removed'
            d = diff_snap(da[k], db[k], f'{path}/{k}')
            if d:
                return d
    if isinstance(a, tuple) and isinstance(b, tuple) and a and b \
            and a[0] == b[0] and a[0] in ('list', 'tuple') \
            and len(a[1]) == len(b[1]):
        for i, (x, y) in enumerate(zip(a[1], b[1])):
            d = diff_snap(x, y, f'{path}[{i}]')
            if d:
                return d
    return f'{path}: {str(a)[:90]} -> {str(b)[:90]}'


def input_snapshot(inp):
    return snap({'data': inp.data, 'materials': inp.materials,
                 'timepoints': inp.timepoints, 'path': inp.path})


def build_digest(r):
    m = hashlib.sha256()

    def add(x):
        if isinstance(x, np.ndarray):
            m.update(np.ascontiguousarray(x).tobytes())
        else:
            m.update(repr(x).encode())
    add(r.z)
    add(r.dz)
    add([float(x) for x in r.min_dz['dz']])
    add(float(r.total_power))
    add(float(r.flow_rate))
    for a in r.assemblies:
        add((a.id, a.name, float(a.flow_rate), float(a.total_power)))
        for k in ('pin_power', 'duct_power', 'coolant_power', 'avg_power'):
            v = getattr(a.power, k)
            add(v if v is not None else 'None')
        for rg in a.region:
            for k in sorted(rg.temp):
                add(rg.temp[k])
            if hasattr(rg, 'coolant_int_params'):
                add(np.asarray(rg.coolant_int_params['fs'], dtype=float))
                add(float(np.sum(rg.coolant_int_params['ff'])))
    return m.hexdigest()[:20]


def _plain(x):
    """option values as comparable text (no paths, no file handles)"""
    if isinstance(x, dict):
        return {str(k): _plain(v) for k, v in sorted(x.items(), key=str)
                if k not in ('paths', 'files', 'path')}
    if isinstance(x, (list, tuple)):
        return [_plain(v) for v in x]
    if isinstance(x, np.ndarray):
        return x.tolist()
    if isinstance(x, (int, float, str, bool, type(None), np.generic)):
        return x if not isinstance(x, str) else os.path.basename(x)
    return type(x).__name__


def sweep_digest(r):
    """what a consumer of the finished model can observe: the fields, the
    requests it carries (tables, hot spots, dumps) and the hot-spot
    analysis derived from both"""
    m = hashlib.sha256()
    for a in r.assemblies:
        m.update(sim.asm_state_digest(a).encode())
    m.update(np.ascontiguousarray(r.core.coolant_gap_temp).tobytes())
    opts = getattr(r, '_options', {}) or {}
    for k in ('hotspot', 'AssemblyTables', 'axial_plane'):
        m.update(repr((k, _plain(opts.get(k)))).encode())
    if opts.get('hotspot'):
        try:
            hs = dassh.hotspot.analyze(r)
            m.update(repr(_plain(hs)).encode())
        except SystemExit:
            m.update(b'hotspot:exit')
        except Exception as e:
            m.update(f'hotspot:{type(e).__name__}'.encode())
    return m.hexdigest()[:20]


LEVEL = {'build': 0, 'clone_build': 0, 'sweep': 1, 'save_load': 1,
         'sweep_post': 2}

_EXEC = re.compile(rb'^Executed .*$', re.M)


def collect_outputs(root, ntp):
    """{time point -> {file name -> digest}} of what a user gets"""
    out = {}
    for tp in range(ntp):
        d = root if ntp == 1 else os.path.join(root, f'timestep_{tp + 1}')
        files = {}
        if os.path.isdir(d):
            for fn in sorted(os.listdir(d)):
                p = os.path.join(d, fn)
                if os.path.isdir(p):
                    continue
                if fn.endswith('.log') or fn in ('input.txt',) \
                        or fn.startswith('power_'):
                    continue
                if fn == 'dassh_reactor.pkl':
                    try:
                        with open(p, 'rb') as f:
                            rx = pickle.load(f)
                        files[fn] = 'sem:' + sweep_digest(rx)
                    except Exception as e:
                        files[fn] = f'unreadable:{type(e).__name__}'
                    continue
                with open(p, 'rb') as f:
                    b = f.read()
                if fn == 'dassh.out':
                    b = _EXEC.sub(b'Executed <masked>', b)
                files[fn] = hashlib.sha256(b).hexdigest()[:20]
        out[tp] = files
    return out


def first_output_diff(ref, got):
    for tp in sorted(set(ref) | set(got)):
        a, b = ref.get(tp, {}), got.get(tp, {})
        for fn in sorted(set(a) | set(b)):
            if a.get(fn) != b.get(fn):
                return tp, fn, a.get(fn), b.get(fn)
    return None


# ----------------------------------------------------------------------
# executing the real command
# ----------------------------------------------------------------------

def run_main(spec, root, fs_plan=None, pool_plan=None, clock_jumps=None,
             parallel=False, n_cpu=None, sim_plan=None, render=True,
             relative=False):
    """dassh.__main__.main([...]) under the environment seams.
    returns (outcome, fs) with outcome in ok|exit|crash|deadlock|error:<T>"""
    import dassh.__main__ as dmain
    s = copy.deepcopy(spec)
    s['setup'] = dict(s['setup'])
    if parallel:
        s['setup']['parallel'] = True
        if n_cpu:
            s['setup']['n_cpu'] = int(n_cpu)
    else:
        s['setup'].pop('parallel', None)
        s['setup'].pop('n_cpu', None)
    if render:
        path = world.render(s, root)
    else:
        path = os.path.join(root, 'input.txt')
    fs = simenv.SimFS(plan=fs_plan, clock_jumps=clock_jumps,
                      pool_plan=pool_plan)
    S = sim.Sim(plan=sim_plan)
    out = io.StringIO()
    outcome = 'ok'
    cwd0 = os.getcwd()
    if relative:
        # the way a user starts it: from the case directory, input by name
        os.chdir(root)
        path = os.path.basename(path)
    with S, fs:
        try:
            with contextlib.redirect_stdout(out), \
                    contextlib.redirect_stderr(out):
                dmain.main([path, '--save_reactor'])
        except sim.SimCrash:
            outcome = 'crash'
        except simenv.SimDeadlock:
            outcome = 'deadlock'
        except SystemExit:
            outcome = 'exit'
        except OSError as e:
            outcome = f'oserror:{e.errno}'
        except Exception as e:
            c = sim.Crashed(e)
            outcome = f'error:{c.etype}@{c.site}'
        finally:
            os.chdir(cwd0)
            dassh.logged_class.shutdown_logger('dassh')
            sim.quiet_logging()
    fs.sim = S
    return outcome, fs


def single_point_spec(spec, tp):
    s = copy.deepcopy(spec)
    s['power'] = [spec['power'][tp]]
    return s


class C16(Prop):
    id = 'C16'
    level = 'exploration'
    rule = ('one case = one generated world with 1-4 time points, pin/fuel '
            'models, dumps, gap models, put through (A) a seeded history of '
            'model constructions / sweeps / save+load / input clones on one '
            'DASSH_Input with a deep snapshot after every operation, (B) the '
            'real dassh main() serially, under SimPool with seeded task order '
            'and task->worker assignment (2-4 workers, workers reused) and one '
            'time point at a time, (C) a crash at a seeded I/O event or tick '
            '(or an injected ENOSPC/EIO) followed by a restart in the dirty '
            'directory, (D) permuted directory listings and wall-clock jumps. '
            'Outputs are compared per time point: dump CSVs bytewise, '
            'dassh.out with the execution date masked, pickled reactors by '
            'state digest. non-trivial = at least two executions completed; '
            'distinct = distinct (world class, schedule/fault plan digest)')
    stub = ['multiprocessing.Pool -> SimPool (in-process, planned order, '
            'arguments pickled at submission, worker death on SystemExit)',
            'time/datetime of dassh.reactor -> SimClock',
            'open/os/numpy.savetxt of the dassh modules -> numbered I/O events '
            'in front of the real scratch directory (SimFS)']
    assumptions = [
        'inter-process interleaving is controlled at task granularity: DASSH '
        'tasks share nothing but the log file',
        'after an injected crash or I/O error nothing is asserted about the '
        'interrupted execution itself; the completed execution that follows '
        'must be indistinguishable from a clean one',
        'Material objects are compared by definition (name and property '
        'functions), not by the temperature they were last evaluated at',
        'user-power inputs only']

    def budget(self, tier):
        if tier == 'quick':
            return {'runs': 450, 'wall_s': 75, 'per_run_timeout': 300,
                    'shrink_s': 90, 'min_evaluated': 30,
                    'require_fired': ['sched.pool', 'crash.io',
                                      'restart.dirty_dir',
                                      'pool.worker_reused'],
                    'require_probes': ['c16.history_ops', 'c16.pool_run',
                                       'c16.single_point_run',
                                       'c16.pinmodel_world']}
        return {'runs': 6000, 'wall_s': 1000, 'per_run_timeout': 900,
                'shrink_s': 300, 'min_evaluated': 400,
                'require_fired': ['sched.pool', 'crash.io', 'crash.tick',
                                  'io.error', 'io.torn_write',
                                  'restart.dirty_dir', 'pool.worker_reused',
                                  'clock.wall_jump'],
                'require_probes': ['c16.history_ops', 'c16.pool_run',
                                   'c16.single_point_run',
                                   'c16.pinmodel_world']}

    def make_case(self, seed, tier):
        spec = world.gen(seed, PROFILE)
        S = rng.Streams(seed)
        g = S('env')
        # dumps
        dump = {}
        for k in _DUMP_KEYS:
            if rng.chance(g, 0.45):
                dump[k] = True
        if dump and rng.chance(g, 0.4):
            dump['interval'] = world._r(rng.loguniform(g, 0.002, 0.05), 3)
        if dump:
            spec['setup']['Dump'] = dump
        # requested axial planes (also a list inside the parsed input that
        # set-up reads), on / near region and power-cell bounds
        if rng.chance(g, 0.6):
            from .sweep import place_ticks
            planes, _ = place_ticks(S('ticks'), spec, ('region', 'power'))
            spec['axial_plane'] = planes
        # detailed assembly tables: post-processing reads the request list
        # that lives inside the parsed input and the dump files of *this*
        # time point
        gt = S('tables')
        if rng.chance(gt, 0.4):
            # only requests DASSH's table writers can serve: they index
            # Reactor.assemblies by position number (wrong behind an empty
            # position), read one average row per assembly (IndexError with
            # two ducts) and expect pin-bundle rows (IndexError inside an
            # unrodded region) - outside the listed properties, so avoided
            types = {t['name']: t for t in spec['types']}
            L = spec['core']['length']
            ok = []
            for k, p in enumerate(spec['positions']):
                if not p:
                    break
                t = types[p['type']]
                if t.get('lowfi') or t.get('axial_regions'):
                    continue
                ok.append((k + 1, len(t['duct_ftf']) // 2))
            tables = {}
            for name in ['tbl_a', 'tbl_b'][:int(gt.integers(1, 3))]:
                kind = rng.choice(gt, ['coolant_subchannel', 'duct_mw'])
                cand = [a for a, nd in ok
                        if kind == 'coolant_subchannel' or nd == 1]
                zs = sorted(set(world._r(gt.uniform(0.02, 0.98) * L, 5)
                                for _ in range(int(gt.integers(1, 5)))))
                if not cand:
                    continue
                na = int(gt.integers(1, min(3, len(cand)) + 1))
                asm = sorted(int(a) for a in
                             gt.choice(cand, size=na, replace=False))
                tables[name] = {'type': kind, 'assemblies': asm,
                                'axial_positions': zs}
            if tables:
                spec['setup']['AssemblyTables'] = tables
        # hot-spot requests: another consumer of the finished model that
        # reads request dictionaries living inside the parsed input
        gh = S('hotspot')
        if rng.chance(gh, 0.35):
            for t in spec['types']:
                if t.get('lowfi') or not rng.chance(gh, 0.7):
                    continue
                hs = {'hs_cool': {
                    'temperature': 'coolant',
                    'subfactors': rng.choice(gh, ['fftf_clad_mw',
                                                  'crbr_fuel_clad_mw']),
                    'input_sigma': int(gh.integers(1, 4)),
                    'output_sigma': int(gh.integers(0, 3))}}
                if t.get('pinmodel') and rng.chance(gh, 0.6):
                    hs['hs_clad'] = {
                        'temperature': 'clad_mw',
                        'subfactors': rng.choice(gh, ['fftf_clad_mw',
                                                      'crbr_fuel_clad_mw',
                                                      'crbr_blanket_clad_mw']),
                        'input_sigma': 3, 'output_sigma': 2}
                if t.get('pinmodel') and rng.chance(gh, 0.4):
                    hs['hs_fuel'] = {
                        'temperature': 'fuel_cl',
                        'subfactors': rng.choice(gh, ['fftf_fuel_cl',
                                                      'ebrii_markv_fuel_cl']),
                        'input_sigma': 3, 'output_sigma': 2}
                t['hotspot'] = hs
        ntp = len(spec['power'])
        ops = []
        for _ in range(int(g.integers(3, 7))):
            ops.append([rng.choice(g, ['build', 'sweep', 'sweep_post',
                                       'clone_build', 'save_load']),
                        int(g.integers(0, ntp))])
        case = {'property': 'C16', 'seed': int(seed), 'spec': spec,
                'ops': ops,
                'pool': {'order': ['seeded', int(g.integers(0, 2**31))],
                         'n_cpu': int(g.integers(2, 5)),
                         'assign': {str(t): int(g.integers(0, 4))
                                    for t in range(ntp)}},
                'fault': None, 'clock': {}, 'listdir': 'identity'}
        u = g.random()
        if u < 0.45:
            case['fault'] = {'kind': 'crash.io',
                             'at_frac': float(g.random()),
                             'torn': float(rng.choice(g, [0.0, 0.3, 0.5,
                                                           0.9, 1.0]))}
        elif u < 0.6:
            case['fault'] = {'kind': 'crash.tick',
                             'at_frac': float(g.random())}
        elif u < 0.75:
            case['fault'] = {'kind': 'io.error',
                             'at_frac': float(g.random()),
                             'errno': rng.choice(g, ['ENOSPC', 'EIO'])}
        if rng.chance(g, 0.4):
            case['clock'] = {str(int(g.integers(1, 6))):
                             float(rng.choice(g, [-86400.0, 3600.0, 1e6,
                                                  -1.0]))}
        if rng.chance(g, 0.5):
            case['listdir'] = ['seeded', int(g.integers(0, 2**31))]
        return case

    # ------------------------------------------------------------------
    def run_case(self, case):
        sim.quiet_logging()
        spec = case['spec']
        ntp = len(spec['power'])
        res = {'violations': [], 'probes': {}, 'fired': {},
               'features': world.features(spec) + (f'tp{ntp}',),
               'executions': 0, 'ticks': 0, 'length_m': 0.0}
        if any(t.get('pinmodel') for t in spec['types']):
            res['probes']['c16.pinmodel_world'] = 1

        def vio(oracle, site, detail, feats=()):
            res['violations'].append(sim.Violation(
                oracle, site, detail, set(feats)).to_json())

        def bump(fs):
            for k, v in fs.fired.items():
                res['fired'][k] = res['fired'].get(k, 0) + v
            if getattr(fs, 'sim', None) is not None:
                for k, v in fs.sim.fired.items():
                    res['fired'][k] = res['fired'].get(k, 0) + v
                res['ticks'] += fs.sim.hist.counts.get('tick_begin', 0)

        # ---- Run A: construction histories ------------------------------
        st = self._run_histories(case, res, vio)
        if st == 'discard':
            return {'status': 'discard', 'reason': res.get('reason', '?'),
                    'violations': []}
        # ---- reference: clean serial execution --------------------------
        with sim.scratch_dir() as d0:
            oc, fs0 = run_main(spec, d0)
            bump(fs0)
            res['executions'] += 1
            if oc != 'ok':
                return {'status': 'discard', 'reason': 'serial_' + oc,
                        'violations': res['violations']} \
                    if not res['violations'] else self._done(res, case)
            ref = collect_outputs(d0, ntp)
            n_events = fs0.seq
            n_ticks = fs0.sim.hist.counts.get('tick_begin', 0)
            # every produced file lives in its own time point's directory
            if ntp > 1:
                stray = [f for f in os.listdir(d0)
                         if not os.path.isdir(os.path.join(d0, f))
                         and not f.endswith('.log') and f != 'input.txt'
                         and not f.startswith('power_')]
                if stray:
                    vio('outputs.own_directory', 'serial',
                        f'files outside the time point directories: {stray}',
                        ['own_directory'])
        res['length_m'] = spec['core']['length'] * ntp
        # ---- Run B: pool schedules and single points ---------------------
        if ntp > 1:
            with sim.scratch_dir() as d1:
                pp = dict(case['pool'])
                rel = rng.h64('c16.relative', case['seed']) % 2 == 0
                if rel:
                    res['probes']['c16.relative_input_path'] = 1
                oc, fs1 = run_main(spec, d1, pool_plan=pp, parallel=True,
                                   n_cpu=pp.get('n_cpu'), relative=rel)
                bump(fs1)
                res['executions'] += 1
                res['probes']['c16.pool_run'] = 1
                if oc != 'ok':
                    vio('pool.outcome', 'parallel run',
                        f'serial execution completed but the pool execution '
                        f'ended with {oc}', ['pool'])
                else:
                    got = collect_outputs(d1, ntp)
                    df = first_output_diff(ref, got)
                    if df:
                        vio('pool.outputs', f'time point {df[0] + 1} {df[1]}',
                            f'serial {df[2]} != parallel {df[3]} '
                            f'(schedule {fs1.pools[0].log if fs1.pools else None})',
                            ['pool'])
            tp = int(case['pool']['assign'].get('0', 0)) % ntp
            with sim.scratch_dir() as d2:
                oc, fs2 = run_main(single_point_spec(spec, tp), d2)
                bump(fs2)
                res['executions'] += 1
                res['probes']['c16.single_point_run'] = 1
                if oc != 'ok':
                    vio('single.outcome', f'time point {tp + 1}',
                        f'ended with {oc} when run alone', ['single'])
                else:
                    got = collect_outputs(d2, 1)[0]
                    a = ref[tp]
                    bad = [fn for fn in sorted(set(a) | set(got))
                           if a.get(fn) != got.get(fn)]
                    if bad:
                        vio('single.outputs',
                            f'time point {tp + 1} {bad[0]}',
                            'outputs differ between the multi-point run and '
                            'the time point run on its own', ['single'])
        # ---- Run C: crash / I/O error, then restart in the dirty dir -----
        f = case.get('fault')
        if f is not None and not res['violations']:
            with sim.scratch_dir() as d3:
                fsp = None
                splan = None
                if f['kind'] in ('crash.io', 'io.error'):
                    at = 1 + int(f['at_frac'] * max(n_events - 1, 1))
                    ff = dict(f)
                    ff['at'] = at
                    fsp = simenv.FsPlan(faults=[ff])
                else:
                    at = 1 + int(f['at_frac'] * max(n_ticks // ntp - 1, 1))
                    splan = sim.Plan(crash_tick=at)
                oc, fs3 = run_main(spec, d3, fs_plan=fsp, sim_plan=splan)
                bump(fs3)
                res['executions'] += 1
                res['probes']['c16.first_exec_' + oc.split(':')[0]] = 1
                # restart: the same command in the same (dirty) directory
                oc2, fs4 = run_main(spec, d3, render=False)
                bump(fs4)
                res['executions'] += 1
                res['fired']['restart.dirty_dir'] = \
                    res['fired'].get('restart.dirty_dir', 0) + 1
                if oc2 != 'ok':
                    vio('restart.outcome', 'second execution',
                        f'clean execution completes but the restart after '
                        f'{f["kind"]} (first execution: {oc}) ended with '
                        f'{oc2}', ['restart', f['kind']])
                else:
                    got = collect_outputs(d3, ntp)
                    df = first_output_diff(ref, got)
                    if df:
                        vio('restart.outputs',
                            f'time point {df[0] + 1} {df[1]}',
                            f'outputs after {f["kind"]} at {at} + restart '
                            f'differ from a clean execution: {df[2]} != '
                            f'{df[3]}', ['restart', f['kind']])
        # ---- Run D: ambient nondeterminism --------------------------------
        if (case.get('clock') or case.get('listdir') != 'identity') \
                and not res['violations']:
            with sim.scratch_dir() as d4:
                ld = case.get('listdir')
                fsp = simenv.FsPlan(listdir=tuple(ld) if isinstance(ld, list)
                                    else ld)
                oc, fs5 = run_main(spec, d4, fs_plan=fsp,
                                   clock_jumps=case.get('clock'))
                bump(fs5)
                res['executions'] += 1
                if oc != 'ok':
                    vio('ambient.outcome', 'clock/listing run',
                        f'ended with {oc}', ['ambient'])
                else:
                    df = first_output_diff(ref, collect_outputs(d4, ntp))
                    if df:
                        vio('ambient.outputs',
                            f'time point {df[0] + 1} {df[1]}',
                            'outputs depend on the wall clock or on the '
                            'directory listing order', ['ambient'])
        return self._done(res, case)

    def _done(self, res, case):
        res['nontrivial'] = res['executions'] >= 2
        res['sched_digest'] = rng.h64(repr(case['pool']), repr(case['fault']),
                                      repr(case['ops']), repr(case['clock']),
                                      repr(case['listdir']))
        res['hist_digest'] = str(res['sched_digest'])
        res['sample'] = {k: case[k] for k in ('seed', 'ops', 'pool', 'fault',
                                               'clock', 'listdir')}
        res['sample']['timepoints'] = len(case['spec']['power'])
        return res

    def _run_histories(self, case, res, vio):
        spec = case['spec']
        with sim.scratch_dir() as d:
            try:
                inp = sim.build_input(spec, d)
            except SystemExit:
                res['reason'] = 'rejected'
                return 'discard'
            except Exception as e:
                res['reason'] = 'crash:' + type(e).__name__
                return 'discard'
            snap0 = input_snapshot(inp)
            bdig = {}
            sdig = {}
            done = []
            n = 0
            for op, tp in case['ops']:
                n += 1
                label = f'op {n} {op}(t={tp})'
                try:
                    src = inp
                    if op == 'clone_build':
                        src = inp.clone()
                    wd = os.path.join(d, f'wd{n}')
                    S = sim.Sim()
                    with S:
                        r = dassh.Reactor(src, timestep=tp, path=wd,
                                          write_output=(op == 'sweep_post'))
                        res['executions'] += 1
                        bd = build_digest(r)
                        if len(r.dz) > 1500:
                            res['reason'] = 'too_many_ticks'
                            return 'discard'
                        if op in ('sweep', 'sweep_post', 'save_load'):
                            r.temperature_sweep()
                            if op == 'sweep_post':
                                r.postprocess()
                            if op == 'save_load':
                                r.save()
                                r = dassh.reactor.load(
                                    os.path.join(wd, 'dassh_reactor.pkl'))
                            sd = sweep_digest(r)
                        else:
                            sd = None
                except SystemExit:
                    if not any(lv >= LEVEL[op] and t == tp
                               for lv, t in done):
                        # nothing comparable succeeded before: the world
                        # itself is rejected at this stage
                        if n == 1:
                            res['reason'] = 'rejected'
                            return 'discard'
                        res['probes']['c16.history_stopped_by_verdict'] = 1
                        break
                    vio('history.outcome', label,
                        'an earlier construction from the same input '
                        'succeeded but this one stopped with an error',
                        ['history'])
                    break
                except Exception as e:
                    c = sim.Crashed(e)
                    if not any(lv >= LEVEL[op] and t == tp
                               for lv, t in done):
                        if n == 1:
                            res['reason'] = f'crash:{c.etype}@{c.site}'
                            return 'discard'
                        res['probes']['c16.history_stopped_by_crash'] = 1
                        break
                    vio('history.crash', label,
                        f'{c.etype} at {c.site} on a later construction from '
                        f'the same input: {str(e)[:120]}',
                        ['history', c.etype])
                    break
                done.append((LEVEL[op], tp))
                res['probes']['c16.history_ops'] = \
                    res['probes'].get('c16.history_ops', 0) + 1
                if op != 'clone_build' or True:
                    s1 = input_snapshot(inp)
                    if s1 != snap0:
                        vio('history.input_mutated', label,
                            'input changed: ' + str(diff_snap(snap0, s1)),
                            ['history', 'input_mutated'])
                        break
                if tp in bdig and bdig[tp] != bd:
                    vio('history.build_differs', label,
                        'model built from the same input and time point '
                        'differs from the first one', ['history'])
                    break
                bdig.setdefault(tp, bd)
                if sd is not None:
                    if tp in sdig and sdig[tp] != sd:
                        vio('history.sweep_differs', label,
                            'results of the same input and time point differ '
                            'between executions', ['history'])
                        break
                    sdig.setdefault(tp, sd)
        return 'ok'

    def shrink_candidates(self, case):
        if len(case['ops']) > 2:
            for i in range(len(case['ops'])):
                c = copy.deepcopy(case)
                del c['ops'][i]
                yield c
        if case.get('fault'):
            c = copy.deepcopy(case)
            c['fault'] = None
            yield c
        if case.get('clock'):
            c = copy.deepcopy(case)
            c['clock'] = {}
            yield c
        if case.get('listdir') != 'identity':
            c = copy.deepcopy(case)
            c['listdir'] = 'identity'
            yield c
        for spec in spec_shrinks(case['spec']):
            c = copy.deepcopy(case)
            c['spec'] = spec
            ntp = len(spec['power'])
            c['ops'] = [[o, t % ntp] for o, t in c['ops']]
            yield c


PROP = C16()
