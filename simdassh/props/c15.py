"""C15 - reported peak temperatures are the maxima over the whole sweep."""
import os
import re
import numpy as np

from .. import sim, rng, oracles, world
from .sweep import SweepProp


class C15(SweepProp):
    id = 'C15'
    level = 'exploration'
    rule = ('one case = one generated world (power peak at the bottom, middle, '
            'top or flat with ties; multi-region assemblies whose duct count and '
            'mesh change along the height; double ducts; fuel/pin models) swept '
            'under a seeded assembly schedule with planes on region boundaries; '
            'oracle = independent running fold over the recorded per-tick '
            'fields, compared with Assembly._peak and with the numbers printed '
            'by the summary tables. non-trivial = completed sweep; distinct = '
            'distinct (world class, schedule digest)')
    stub = ['per-tick assembly-update order', 'tick placement via axial_plane']
    assumptions = ['user-power inputs only',
                   'table numbers are compared to the printed precision']
    profile = {'pinmodel_prob': 0.45, 'axial_region_prob': 0.6,
               'n_duct': [1, 1, 2, 2], 'n_ring_core': [1, 1, 2],
               'length': (0.08, 0.3), 'lowfi_prob': 0.1,
               'gap_models': ['none', 'flow', 'no_flow', 'duct_average'],
               'dT': (5.0, 60.0), 'zero_cell_prob': 0.35,
               'hetero_power': True}
    tick_kinds = ('region', 'power')

    def budget(self, tier):
        if tier == 'quick':
            return {'runs': 1000, 'wall_s': 70, 'per_run_timeout': 200,
                    'shrink_s': 60,
                    'require_probes': ['c15.peak_checked',
                                       'c15.pin_peak_checked',
                                       'c15.duct_count_changes',
                                       'c15.table_checked'],
                    'min_evaluated': 80}
        return {'runs': 30000, 'wall_s': 1000, 'per_run_timeout': 600,
                'shrink_s': 300,
                'require_probes': ['c15.peak_checked', 'c15.pin_peak_checked',
                                   'c15.duct_count_changes',
                                   'c15.table_checked', 'c15.tie'],
                'min_evaluated': 1200}

    def monitors(self, case, spec):
        return [oracles.PeakC15()]

    def after(self, case, e, res, d):
        r = e.r
        mon = e.S.monitors[0]
        for a in r.assemblies:
            nds = set(rg.temp['duct_mw'].shape[0] for rg in a.region)
            if len(nds) > 1:
                res['probes']['c15.duct_count_changes'] = 1
        # the numbers DASSH prints: generate the summary tables with the real
        # table classes and parse them back
        import dassh
        try:
            ctab = dassh.table.CoolantTempTable().generate(r, None)
            dtab = dassh.table.DuctTempTable().generate(r)
        except Exception as ex:
            res['violations'].append(sim.Violation(
                'peak.table_crash', 'summary tables',
                f'{type(ex).__name__}: {ex}', {'table'}).to_json())
            return
        res['probes']['c15.table_checked'] = 1
        vio = check_tables(r, mon, ctab, dtab)
        res['violations'].extend(v.to_json() for v in vio)
        if any('pin' in a._peak for a in r.assemblies):
            res['probes']['c15.pin_table_checked'] = 1
            if any('pin' not in a._peak for a in r.assemblies):
                res['probes']['c15.pin_table_mixed_core'] = 1
            for comp, reg in (('clad', 'od'), ('clad', 'mw'), ('clad', 'id'),
                              ('fuel', 'od'), ('fuel', 'cl')):
                try:
                    ptab = dassh.table.PeakPinTempTable(comp, reg).generate(
                        r, None)
                except Exception as ex:
                    res['violations'].append(sim.Violation(
                        'peak.table_crash', f'pin table {comp} {reg}',
                        f'{type(ex).__name__}: {ex}', {'table'}).to_json())
                    break
                vio = check_pin_table(r, f'{comp}_{reg}', ptab)
                res['violations'].extend(v.to_json() for v in vio)
                if vio:
                    break


_CROW = re.compile(r'^\s*(\d+)\s+(\S+)\s+(\S+)\s+(\S+)\s+(\S+)\s+(\S+)\s+'
                   r'(\S+)\s+(\S+)\s+(\S+)\s*$')
_DROW = re.compile(r'^\s*(\d+)\s+\(\s*\d+,\s*\d+\)\s+(\d+)\s+(.*)$')


_PROW = re.compile(r'^\s*(\d+)\s+(\S+)\s+(\d+)\s+(-?\d+\.?\d*)\s+'
                   r'(-?\d+\.?\d*(?:[eE][-+]?\d+)?)\s+(.*)$')


def check_pin_table(r, key, ptab):
    """Rows of a PeakPinTempTable against the peak records of the assembly
    in that row (1-based position in Reactor.assemblies): name, pin, height
    and the radial profile; one row per assembly that has a pin model, none
    for the others.  (That the records themselves are the maxima of the
    fields is decided by the peak.pin oracles.)"""
    vio = []
    tol = 0.051           # one printed decimal
    seen = set()
    for ln in ptab.splitlines():
        m = _PROW.match(ln)
        if not m:
            continue
        i = int(m.group(1)) - 1
        name, pin, ht = m.group(2), int(m.group(3)), float(m.group(4))
        temps = []
        for tok in m.group(6).replace('|', ' ').split():
            try:
                temps.append(float(tok))
            except ValueError:
                break
        if not (0 <= i < len(r.assemblies)):
            vio.append(sim.Violation(
                'peak.table_pin', f'row {i + 1} {key}',
                f'row for assembly {i + 1} of {len(r.assemblies)}',
                {'table', 'pin', 'row'}))
            continue
        a = r.assemblies[i]
        seen.add(i)
        if 'pin' not in a._peak:
            vio.append(sim.Violation(
                'peak.table_pin', f'asm{a.id} {key}',
                f'row {i + 1} ("{name}") for an assembly without a pin '
                f'model ("{a.name}")', {'table', 'pin', 'row'}))
            continue
        rec = a._peak['pin'][key][2]
        want = [float(x) for x in rec[3:]]
        ok = (name == a.name[:len(name)] and pin == int(rec[2])
              and abs(ht - float(rec[1])) <= tol
              and len(temps) >= len(want)
              and all(abs(t - w) <= tol for t, w in zip(temps, want)))
        if not ok:
            vio.append(sim.Violation(
                'peak.table_pin', f'asm{a.id} {key}',
                f'row {i + 1} prints "{name}" pin {pin} z={ht} '
                f'T={temps[:len(want)]} but that assembly ("{a.name}") '
                f'recorded pin {int(rec[2])} z={float(rec[1])!r} '
                f'T={[round(w, 2) for w in want]}', {'table', 'pin'}))
    for i, a in enumerate(r.assemblies):
        if 'pin' in a._peak and i not in seen:
            vio.append(sim.Violation(
                'peak.table_pin', f'asm{a.id} {key}',
                f'no row for assembly {i + 1} ("{a.name}"), which has a '
                f'pin model', {'table', 'pin', 'row'}))
    return vio[:1]


def check_tables(r, mon, ctab, dtab):
    """Compare the printed peak / outlet numbers with the harness fold.
    Rows are indexed by the position in Reactor.assemblies (1-based)."""
    vio = []
    tol = 0.0051          # two printed decimals
    for ln in ctab.splitlines():
        m = _CROW.match(ln)
        if not m:
            continue
        try:
            i = int(m.group(1)) - 1
            bulk, pk_out, pk_tot = (float(m.group(k)) for k in (5, 6, 7))
            ht = float(m.group(9))
        except ValueError:
            continue
        if not (0 <= i < len(r.assemblies)):
            continue
        a = r.assemblies[i]
        ref = mon.cool.get(a.id)
        if ref is None:
            continue
        if abs(pk_tot - ref[0]) > tol:
            vio.append(sim.Violation(
                'peak.table_coolant', f'asm{a.id}',
                f'printed peak coolant temperature {pk_tot!r} != max over '
                f'the sweep {ref[0]!r}', {'table', 'coolant'}))
        elif not any(abs(ht - z) <= tol for z in ref[1]):
            vio.append(sim.Violation(
                'peak.table_coolant_height', f'asm{a.id}',
                f'printed peak height {ht!r} not in {ref[1][:4]}',
                {'table', 'coolant', 'height'}))
        out = float(a.avg_coolant_temp)
        if abs(bulk - out) > tol:
            vio.append(sim.Violation(
                'peak.table_outlet', f'asm{a.id}',
                f'printed bulk outlet {bulk!r} != mixed-mean of the final '
                f'plane {out!r}', {'table', 'outlet'}))
        mx = float(np.max(a.active_region.temp['coolant_int']))
        if abs(pk_out - mx) > tol:
            vio.append(sim.Violation(
                'peak.table_peak_outlet', f'asm{a.id}',
                f'printed peak outlet {pk_out!r} != max of the final plane '
                f'{mx!r}', {'table', 'outlet'}))
    for ln in dtab.splitlines():
        m = _DROW.match(ln)
        if not m:
            continue
        i = int(m.group(1)) - 1
        dno = int(m.group(2))          # 1 = innermost printed duct
        try:
            nums = [float(x) for x in m.group(3).split()]
        except ValueError:
            continue
        if len(nums) < 8 or not (0 <= i < len(r.assemblies)):
            continue
        pk, ht = nums[-2], nums[-1]
        a = r.assemblies[i]
        n_final = a.active_region.temp['duct_mw'].shape[0]
        nslots = len(a._peak['duct'])
        if not (1 <= dno <= n_final):
            continue
        # the printed ducts are those of the final region; the outermost of
        # them is the outer duct, which exists in every region
        from_out = n_final - dno
        ref = mon.duct.get((a.id, from_out))
        if ref is None:
            continue
        feats = {'table', 'duct'}
        if nslots != n_final:
            feats.add('final_region_has_fewer_ducts')
        if abs(pk - ref[0]) > tol:
            vio.append(sim.Violation(
                'peak.table_duct', f'asm{a.id} duct {dno}',
                f'printed peak mid-wall temperature {pk!r} != max of this '
                f'duct over the sweep {ref[0]!r} (at z={ref[1][0]!r})',
                feats))
        elif not any(abs(ht - z) <= tol for z in ref[1]):
            vio.append(sim.Violation(
                'peak.table_duct_height', f'asm{a.id} duct {dno}',
                f'printed height {ht!r} not in {ref[1][:4]}',
                feats | {'height'}))
    return vio


PROP = C15()
