#!/bin/bash
# developer tool: run the quick tier of every claimed check under several
# VERIF_SEED values (evidence and replays redirected to a scratch directory)
# usage: tools_multiseed.sh "<seeds>" [props...]
seeds=${1:-"1 2 3"}; shift
props=${@:-"C01 C02 C03 C04 C05 C06 C14 C15 C16 C18 C20"}
out=$(mktemp -d /tmp/simdassh_ms_XXXX)
for s in $seeds; do for p in $props; do
  SIMDASSH_EVIDENCE_DIR=$out/ev SIMDASSH_REPLAY_DIR=$out/rp_$s VERIF_SEED=$s \
    timeout ${TMO:-2400} ./check $p --tier ${TIER:-quick} > $out/$p.$s.log 2>&1
  rc=$?
  echo "seed=$s $p exit=$rc $(grep -c '^VIOLATION' $out/$p.$s.log) violations; $(grep "$p ${TIER:-quick}:" $out/$p.$s.log | cut -c1-160)"
  grep "oracle=\|KNOWN-FINDING" $out/$p.$s.log | cut -c1-420
done; done
echo "logs and replays in $out"
