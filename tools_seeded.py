#!/venv/bin/python
"""Confirm a seeded change delivered by a sub-agent and run the checks on it.

usage: tools_seeded.py <seed id> <property> <agent worktree> [extra props...]
Copies SEED/{patch.diff,demo.py,NOTES.md} to /verif/seeded/<seed id>/, then in
a fresh scratch worktree of /repo HEAD (outside /repo and /verif):
  * demo passes on the clean tree and fails with the patch,
  * the set of passing tests of the repository suite is unchanged,
  * the quick check(s) of the property run against the patched tree.
Writes meta.json and removes the scratch worktree.
"""
import json, os, shutil, subprocess, sys, tempfile, time
import xml.etree.ElementTree as ET

ROOT = os.path.dirname(os.path.abspath(__file__))
PY = '/venv/bin/python'


def run(cmd, **kw):
    return subprocess.run(cmd, capture_output=True, text=True, **kw)


def passing(tree):
    with tempfile.TemporaryDirectory() as d:
        x = os.path.join(d, 'j.xml')
        env = dict(os.environ, PYTHONPATH=tree)
        run([PY, '-m', 'pytest', '-q', '-p', 'no:cacheprovider',
             '--timeout=900', '--continue-on-collection-errors',
             f'--junitxml={x}'], cwd=tree, env=env)
        ok = set()
        for tc in ET.parse(x).getroot().iter('testcase'):
            if not [c for c in tc if c.tag in ('failure', 'error', 'skipped')]:
                ok.add(f"{tc.get('classname')}::{tc.get('name')}")
        return ok


def main():
    sid, pid, awt = sys.argv[1], sys.argv[2], sys.argv[3]
    extra = sys.argv[4:]
    dst = os.path.join(ROOT, 'seeded', sid)
    os.makedirs(dst, exist_ok=True)
    for f in ('patch.diff', 'demo.py', 'NOTES.md'):
        shutil.copy(os.path.join(awt, 'SEED', f), os.path.join(dst, f))
    base = tempfile.mkdtemp(prefix='simdassh_seed_')
    wt = os.path.join(base, 'tree')
    meta = {'id': sid, 'property': pid, 'ran': []}
    try:  # keep the hand-written history of earlier evaluations
        meta['history'] = json.load(open(os.path.join(dst, 'meta.json'))).get('history', [])
    except (OSError, ValueError):
        pass
    try:
        run(['git', '-C', '/repo', 'worktree', 'add', '-q', '--detach', wt, 'HEAD'], check=True)
        meta['repo_head'] = run(['git', '-C', '/repo', 'rev-parse', '--short', 'HEAD']).stdout.strip()
        env = dict(os.environ, PYTHONPATH=wt)
        d0 = run([PY, os.path.join(dst, 'demo.py')], env=env, cwd=base, timeout=1800)
        meta['demo_clean_exit'] = d0.returncode
        base_pass = passing(wt)
        a = run(['git', '-C', wt, 'apply', '--whitespace=nowarn', os.path.join(dst, 'patch.diff')])
        meta['patch_applies'] = a.returncode == 0
        if a.returncode != 0:
            meta['apply_error'] = a.stderr[-400:]
        d1 = run([PY, os.path.join(dst, 'demo.py')], env=env, cwd=base, timeout=1800)
        meta['demo_patched_exit'] = d1.returncode
        meta['demo_patched_tail'] = (d1.stdout + d1.stderr)[-500:]
        new_pass = passing(wt)
        meta['tests_passing_clean'] = len(base_pass)
        meta['tests_passing_patched'] = len(new_pass)
        meta['tests_lost'] = sorted(base_pass - new_pass)
        meta['tests_gained'] = sorted(new_pass - base_pass)
        meta['files_changed'] = run(['git', '-C', wt, 'diff', '--stat']).stdout.strip().splitlines()[-1:]
        checks = {}
        for p in [pid] + extra:
            ev = os.path.join(base, 'ev_' + p)
            cenv = dict(os.environ, SIMDASSH_REPO=wt, SIMDASSH_EVIDENCE_DIR=ev,
                        SIMDASSH_REPLAY_DIR=os.path.join(base, 'rp_' + p))
            t0 = time.time()
            c = run([PY, os.path.join(ROOT, 'check'), p, '--tier', 'quick'], env=cenv, timeout=3000)
            lines = [ln for ln in c.stdout.splitlines() if ln.startswith('VIOLATION') or ln.startswith('  oracle=')]
            checks[p] = {'exit': c.returncode, 'wall_s': round(time.time() - t0),
                         'caught': c.returncode == 1,
                         'first_violation': lines[1][:400] if len(lines) > 1 else ''}
            meta['ran'].append(f'SIMDASSH_REPO=<patched tree> ./check {p} --tier quick -> exit {c.returncode}')
        meta['checks'] = checks
        meta['confirmed'] = bool(meta['patch_applies'] and meta['demo_clean_exit'] == 0
                                 and meta['demo_patched_exit'] != 0 and not meta['tests_lost'])
    finally:
        run(['git', '-C', '/repo', 'worktree', 'remove', '--force', wt])
        shutil.rmtree(base, ignore_errors=True)
    notes = open(os.path.join(dst, 'NOTES.md')).read()
    meta['breaks'] = pid
    meta['needs_to_manifest'] = notes[:1200]
    with open(os.path.join(dst, 'meta.json'), 'w') as f:
        json.dump(meta, f, indent=1)
    print(json.dumps({k: v for k, v in meta.items() if k not in ('needs_to_manifest',)}, indent=1))


main()
