#!/venv/bin/python
"""Developer tool: run a batch and aggregate violations by signature."""
import os, sys, json, collections
os.environ.setdefault('PYTHONHASHSEED', '0')
sys.path.insert(0, os.path.dirname(os.path.abspath(__file__))); sys.path.insert(0, os.environ.get('SIMDASSH_REPO', '/repo'))
import multiprocessing as mp
from concurrent.futures import ProcessPoolExecutor
from simdassh import runner, props, sim

def main():
    pid, lo, hi = sys.argv[1], int(sys.argv[2]), int(sys.argv[3])
    tier = sys.argv[4] if len(sys.argv) > 4 else 'quick'
    sim.quiet_logging()
    P = props.get(pid)
    agg = collections.OrderedDict()
    st = collections.Counter()
    reasons = collections.Counter()
    with ProcessPoolExecutor(16, mp_context=mp.get_context('fork')) as ex:
        for r in ex.map(runner._worker_run, [(P, tier, 0, i, 600) for i in range(lo, hi)]):
            st[r['status']] += 1
            if r['status'] == 'discard':
                reasons[r.get('reason')] += 1
            if r['status'] in ('error', 'timeout'):
                print(r['i'], r['status'], r.get('error', '')[-800:])
            seen = set()
            for v in r.get('violations', []):
                k = (v['oracle'], tuple(v['features']))
                if k in seen:
                    continue
                seen.add(k)
                a = agg.setdefault(k, [0, r['i'], v['site'], v['detail'][:260]])
                a[0] += 1
    print(dict(st), dict(reasons))
    for k, a in agg.items():
        print(f'{a[0]:4d} runs  {k[0]} {list(k[1])}  e.g. i={a[1]} {a[2]}: {a[3]}')

main()
