#!/bin/sh
# Offline setup: nothing is fetched or built.  dassh is an editable install that
# resolves to /repo/dassh, so every check imports the current working tree.
set -e
cd "$(dirname "$0")"
/venv/bin/python - <<'PY'
import sys
sys.path.insert(0, '/repo')
import numpy, dassh, configobj
print('numpy', numpy.__version__, 'dassh', dassh.__version__, dassh.__file__)
PY
mkdir -p evidence replays
chmod +x check baseline_check.py
echo setup ok
