#!/venv/bin/python
"""Regenerates MANIFEST.json from the table below (kept in one place so the
manifest always validates)."""
import json, os, sys
sys.path.insert(0, os.path.dirname(os.path.abspath(__file__)))

CLAIMED = {
 'C01': dict(
   category='exploration',
   text=('Seeded search: every Assembly.calculate of every generated world (bundle '
         'geometry, ducts, flowing/stagnant bypass, correlations, laminar..turbulent '
         'flows, power shapes, gap model, conv_approx, tolerance, low-fidelity and '
         'multi-region types) is one double-entry ledger line per coolant account '
         '(interior, each flowing bypass): m cp dT against delivered power plus wall '
         'heat measured by Fourier\'s law on the reported wall temperatures; tally-free '
         'form in adiabatic worlds; effective-cp window in temperature-dependent worlds; '
         'mixed-mean carry-over at region changes. Runs under seeded assembly schedules, '
         'adversarial tick placement and forced correlation updates.'),
   design_ref='DESIGN.md section 3, C01',
   note=('Round-off closure only in constant-property worlds; wall flux relies on the '
         'steady-slab duct solution (C11) as the measuring instrument; user-power inputs only.'),
   technique='deterministic simulation: step driver with per-tick energy-ledger oracle under seeded schedules and tick placement'),
 'C02': dict(
   category='exploration',
   text=('Seeded search over gap-coupled cores (1..19 positions, holes, periphery, mixed '
         'meshes, double ducts, low-fidelity types) under seeded per-tick permutations of '
         'the assembly updates: per (assembly, tick) the heat leaving through the outer '
         'duct computed on the assembly mesh from what it was given and produced (and by '
         'Fourier\'s law on the wall) must equal the gap-side credit; per tick the gap '
         'enthalpy rise must equal the credits; per sweep assemblies+gap enthalpy rise '
         'must equal the power delivered; adiabatic worlds credit nothing.'),
   design_ref='DESIGN.md section 3, C02',
   note='Constant-property worlds; six-node/stagnant-bypass/conv_approx worlds excluded from the whole-sweep balance; user-power inputs only.',
   technique='deterministic simulation: multi-party exchange ledger per tick under seeded assembly schedules'),
 'C03': dict(
   category='exploration',
   text=('Seeded search over user-power worlds and tick schedules (planes on/next to '
         'power-cell, bundle and region bounds; bundle bounds aligned or strictly inside a '
         'power cell): assigned power vs analytic integral of the CSV polynomials, core '
         'normalisation/scaling, exactly-once in-order consumption of the per-tick power '
         'under any assembly order, delivered == assigned after the sweep, and a scaling '
         'twin in constant worlds.'),
   design_ref='DESIGN.md section 3, C03',
   note='User-power CSV path only (VARPOW/binary flux files unavailable in this sandbox).',
   technique='deterministic simulation: power ledger over seeded tick schedules + scaling twin'),
 'C14': dict(
   category='exploration',
   text=('Seeded search over worlds with spacer grids, gravity and multi-region assemblies '
         'on two tick schedules per world (planes exactly on grids incl. dyadic coordinates, '
         'a hair before/after, different step): non-negative increments, additivity, closed '
         'forms per region/component (constant worlds), every grid crossed by exactly one '
         'loss increment in the recorded history, equality between the two schedules; history '
         'step: each swept assembly with a grid is cloned at another flow rate and set up again, '
         'its loss coefficient must be the correlation at its own Reynolds number.'),
   design_ref='DESIGN.md section 3, C14',
   note='Closed forms asserted in constant-property worlds only; user-power inputs only.',
   technique='deterministic simulation: tick scheduler vs grid timers (exactly-once) + closed-form ledger + step twin + re-clone history step'),
 'C15': dict(
   category='exploration',
   text=('Seeded search over worlds whose peaks fall at the bottom/middle/top/ties and '
         'whose duct count and mesh change along the height, with pin/fuel models, under '
         'seeded assembly schedules: an independent running fold over the per-tick fields '
         'is compared with Assembly._peak (value, height, radial pin profile) and with the '
         'numbers printed by the coolant and duct summary tables (parsed back).'),
   design_ref='DESIGN.md section 3, C15',
   note='Printed numbers compared to printed precision; user-power inputs only.',
   technique='deterministic simulation: independent fold over the recorded step history'),
 'C04': dict(
   category='exploration',
   text=('Seeded search: max-principle invariants monitored at every tick of the march the '
         'code itself selects (zero-power worlds stay at the inlet value, nothing below the '
         'inlet with non-negative power, no new extremum in core-wide unheated ticks over the '
         'hull of the last two levels, no-flow/duct-average gap temperatures inside the hull '
         'of adjacent walls and neighbours) plus state-perturbation probes at seeded ticks: '
         'the reactor is duplicated, one cell gets +delta, both copies run the real '
         'axial_step and the difference is read as a column of the update operator '
         '(>= 0, <= 1, flow-weighted column sum = own flow share where all carriers flow). '
         'Probes are steered to the step-limiting cell type (interior/edge/corner, bypass, '
         'low-fidelity node, gap).'),
   design_ref='DESIGN.md section 3, C04',
   note=('Exact operator columns only in constant-property worlds; temperature-dependent '
         'worlds use delta = 0.01 K and a 2e-2 tolerance. Long worlds are swept for their '
         'first 400 ticks only.'),
   technique='deterministic simulation: per-tick invariants + state-perturbation fault injection on duplicated reactors'),
 'C05': dict(
   category='exploration',
   text=('Seeded search over mesh constructions: full Reactor builds on worlds with nearly '
         'coincident region/power/requested planes (offsets 0, 1e-13..1e-6), step '
         'requirements from sub-micrometre to centimetres and user steps on either side of '
         'the limit, plus the real mesh methods on a bare Reactor populated with drawn '
         'boundary lists (incl. m->cm->m conversion residues). Invariants: starts at 0, ends '
         'exactly at the core length, strictly increasing, dz consistent, every boundary a '
         'plane, no step above the smallest requirement, user step honoured iff below the '
         'limit; bounded liveness as a deterministic call budget on _check_dz.'),
   design_ref='DESIGN.md section 3, C05',
   note='A hang is a budget of ceil(L/req)+2*#bounds+10 _check_dz calls; meshes above the plane cap are not executed in the full driver.',
   technique='deterministic simulation: construction of the simulated clock under a deterministic step budget (bounded liveness)'),
 'C16': dict(
   category='exploration',
   text=('Seeded search over histories, process schedules and crash points: (A) seeded '
         'sequences of model constructions / sweeps / save+load / input clones on one '
         'DASSH_Input with a deep structural snapshot after every operation and digest '
         'equality of every model and result built from the same (input, time point); (B) '
         'the real dassh main() serially, under SimPool (seeded task order, task->worker '
         'assignment, worker reuse) and one time point at a time, outputs compared per time '
         'point (dump CSVs bytewise, dassh.out with the date masked, pickled reactors by '
         'state digest, own directory); (C) crash at a seeded I/O event or tick with torn '
         'unflushed data, or ENOSPC/EIO, then restart in the dirty directory; (D) wall-clock '
         'jumps and permuted directory listings.'),
   design_ref='DESIGN.md section 3, C16',
   note=('SimPool is an in-process model of multiprocessing.Pool (arguments pickled at '
         'submission, worker death on SystemExit, results delivered through get()); '
         'interleaving is at task granularity. Nothing is asserted about an interrupted '
         'execution itself. User-power inputs only.'),
   technique='deterministic simulation: SimPool process schedules, SimFS crash/restart fault injection, construction histories'),
 'C18': dict(
   category='fault_enumeration',
   text=('Single-fault injection into valid generated inputs: 13 semantic fault kinds from '
         'the classes the property lists plus file-level faults (truncate, torn last row, '
         'flipped bit, dropped column, empty file) on the input and power files, and the '
         'unfaulted worlds (incl. every correlation combination the reader accepts and '
         'three-duct bundles); each executed with the real main() serially and under SimPool. '
         'Oracle over the recorded history: error verdict with a logged message before the '
         'first temperature event, no unhandled exception, no hang (deterministic budget), no '
         'parent deadlock on a verdict reached in a pool worker, no NaN/inf/non-positive '
         'temperature in saved results.'),
   design_ref='DESIGN.md section 3, C18',
   note='Single faults only; sampled, not exhaustive, over the fault positions inside files. User-power inputs only.',
   technique='deterministic simulation: input/file fault injection with verdict-ordering oracle over the event history, serial and SimPool execution'),
 'C20': dict(
   category='exploration',
   text=('Seeded search over iteration histories of the real fixed-point loop: generated '
         'user-power cores with an [Orificing] block (group counts 1..N, ties / clusters / '
         'wide spreads of power, cut-off parameters, regroup never/once/every, iteration '
         'limits, pressure-drop limits binding in zero/one/several groups) are run through '
         'Orificing.optimize() against the real plant with its state on disk; after every '
         '_group / regroup / distribute the partition, exact group count, ordering, equal '
         'flow within a group, conservation against a harness-recomputed total, and the '
         'pressure-drop limit are checked. The optimisation is repeated under permuted '
         'directory listings, SimPool and wall-clock jumps and must distribute the same flows; '
         'after optimize() the live controller distributes once more under a tightened limit.'),
   design_ref='DESIGN.md section 3, C20',
   note=('An action ending in an exception or error exit counts as stopped with an error; '
         'a reach probe requires completed optimisations. recycle_results = False.'),
   technique='deterministic simulation: controller-in-the-loop invariants after every action of seeded iteration histories, with listing-order / pool / clock faults'),
 'C06': dict(
   category='exploration',
   text=('Seeded search over worlds and schedules: every generated multi-assembly '
         'core is swept under the identity schedule, seeded per-tick permutations '
         'of the per-assembly updates and region activations, a re-ordered '
         'assignment list and, for adiabatic worlds, stand-alone twins on the same '
         'planes; all observables of every assembly must agree bitwise at every '
         'tick. A clean batch is evidence over the sampled worlds and schedules, '
         'not a proof.'),
   design_ref='DESIGN.md section 3, C06',
   note=('Trusts that permuting the N per-assembly updates inside one axial step is '
         'a legal schedule (nothing else runs between them in Reactor.axial_step). '
         'User-power inputs only.'),
   technique='deterministic simulation: seeded assembly-update scheduler + bitwise twin oracle'),
}

NA = {
 'C07': 'Equivariance under hexagonal symmetries is a relation between two deterministic runs on transformed inputs; no schedule, clock, fault, crash point or history enters, so a simulator adds nothing to input generation.',
 'C08': 'Bundle topology/geometry is built once by pure functions of ring count and dimensions; nothing evolves, can be reordered or interrupted. (Its failure under the installed NumPy is repaired by a fix: commit because no pin bundle can be built without it.)',
 'C09': 'The inter-assembly gap mesh is a static structure computed once from the layout; the space is configuration space, not schedule/fault space.',
 'C10': 'Positivity/exactness/conservation of the duct-gap overlap matrices is linear algebra on two boundary vectors; stateless pure function.',
 'C11': 'The duct-wall solution is a closed-form expression of the current cell values; no state is carried between ticks.',
 'C12': 'Flow split, friction and mixing correlations are pure functions of geometry and Reynolds number.',
 'C13': 'Pin temperatures are recomputed from scratch each step from (power, coolant temperature, film coefficient); no state survives a call, so there is no history or schedule to vary.',
 'C17': 'Unit conversion is a pure function of the input text.',
 'C19': 'Hot-spot temperatures are algebra on a finished result and a table.',
}

def main():
    root = os.path.dirname(os.path.abspath(__file__))
    extra = {}
    p = os.path.join(root, 'manifest_checks.json')
    if os.path.exists(p):
        extra = json.load(open(p))
    claimed = dict(CLAIMED)
    claimed.update(extra)
    checks = []
    for pid in sorted(claimed):
        c = claimed[pid]
        checks.append({
            'property_id': pid,
            'quick_cmd': f'./check {pid} --tier quick',
            'thorough_cmd': f'./check {pid} --tier thorough',
            'evidence_file': f'evidence/{pid}.json',
            'replay_cmd_template': f'./check {pid} --replay {{path}}',
            'engine': 'simdassh',
            'level_claimed': {'category': c['category'], 'text': c['text'],
                              'design_ref': c['design_ref']},
            'level_note': c['note'],
            'technique': c['technique'],
        })
    all_ids = ['C%02d' % i for i in range(1, 21)]
    na = []
    for pid in all_ids:
        if pid in claimed:
            continue
        reason = NA.get(pid) or ('check not yet registered: the simulator-based check '
                                 'for this property is under construction (see DESIGN.md section 3)')
        na.append({'property_id': pid, 'reason': reason})
    m = {
        'version': 1,
        'setup_cmd': './setup.sh',
        'hooks': {
            'guard': 'DASSH_VERIF',
            'enable': 'none needed: every seam is installed at run time by the harness '
                      '(monkeypatching of the imported dassh modules); no hook commit exists in /repo',
            'baseline_off_cmd': './baseline_check.py',
            'source_commits': [],
            'add_only': True,
        },
        'engines': [{
            'name': 'simdassh',
            'path': 'simdassh/',
            'serves_properties': sorted(claimed),
            'kind_free_text': 'deterministic simulation with fault injection: seeded world '
                              'generator, run-time seams (assembly/region scheduler, tick '
                              'placement, SimPool, SimFS, SimClock, crash/restart), per-tick '
                              'oracles, structured shrinking and replay files',
        }],
        'checks': checks,
        'not_applicable': na,
        'notes': 'Exit 0 held / 1 violation (VIOLATION line with replay) / 2 harness error. '
                 'Known, recorded defects are listed in known_findings.json and reported as '
                 'KNOWN-FINDING lines. Repairs made to /repo are "fix:" commits listed there as fixed.',
    }
    with open(os.path.join(root, 'MANIFEST.json'), 'w') as f:
        json.dump(m, f, indent=1)
    print('MANIFEST.json written:', len(checks), 'checks,', len(na), 'not claimed')

main()
