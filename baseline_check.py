#!/venv/bin/python
"""Run the repository's pinned test suite with the verification guard OFF and
check that every test in BASELINE.stable_pass still passes."""
import json
import os
import subprocess
import sys
import tempfile
import xml.etree.ElementTree as ET

env = dict(os.environ)
env.pop('DASSH_VERIF', None)
base = json.load(open('/root/.vp/BASELINE.json')) \
    if os.path.exists('/root/.vp/BASELINE.json') else None
with tempfile.TemporaryDirectory() as d:
    xml = os.path.join(d, 'junit.xml')
    p = subprocess.run(
        ['/venv/bin/python', '-m', 'pytest', '-ra', '-q', '-p',
         'no:cacheprovider', '--timeout=900',
         '--continue-on-collection-errors', f'--junitxml={xml}'],
        cwd='/repo', env=env, capture_output=True, text=True)
    print(p.stdout[-600:])
    passed = set()
    for tc in ET.parse(xml).getroot().iter('testcase'):
        bad = [c.tag for c in tc if c.tag in ('failure', 'error', 'skipped')]
        if not bad:
            passed.add(f"{tc.get('classname')}::{tc.get('name')}")
print(f'passed: {len(passed)}')
if base is None:
    sys.exit(0)
missing = [t for t in base['stable_pass'] if t not in passed]
print(f'baseline stable_pass: {len(base["stable_pass"])}; '
      f'missing: {len(missing)}')
for t in missing:
    print('  MISSING', t)
sys.exit(1 if missing else 0)
